#!/bin/sh
# Offline setup: make sure hypothesis is importable by the interpreter that has pyxel's dependencies.
set -e
if ! /venv/bin/python -c "import hypothesis" 2>/dev/null; then
  PIP_NO_INDEX=1 /venv/bin/pip install --no-index --find-links /opt/veriftools/wheels hypothesis
fi
/venv/bin/python -c "import hypothesis, numpy, sys; sys.path.insert(0, '/repo'); import pyxel; print('setup ok: hypothesis', hypothesis.__version__, 'pyxel from', pyxel.__file__)"
mkdir -p evidence logs
