"""C02 — readout clock and per-step bucket lifecycle (destructive / non-destructive)."""

from __future__ import annotations

import math

import numpy as np
from hypothesis import strategies as st

from vlib import pyx
from vlib.gen_detector import build_detector, simple_spec
from vlib.gen_schedule import INVALID_KINDS, mutate_invalid, render_readout_kwargs, schedules
from vlib.runner import Part

PROPERTY = "C02"
LEVEL = "exploration"
RULE = (
    "Part 'valid': Hypothesis generates a valid schedule (1..12 strictly increasing non-zero times above a negative/zero/"
    "positive start; 12 renderings: list, ints, scalar, Python and numpy expressions, .npy/.txt/.csv files), destructive or "
    "not, a per-step write plan over photon/photon3d/charge/clusters/pixel/signal/image/scene, and a prior history of the "
    "detector (fresh | leftovers planted in every bucket | 1..3 earlier complete runs, a third of them with the very same times and mode and another start time); a clock-and-bucket probe runs first "
    "and last in every step. Part 'invalid': a valid schedule is mutated (duplicate, swap, decreasing tail, first time 0, "
    "start >= first, empty, both times and file) and fed through 7 entry points; an error must surface before any model "
    "runs. Non-trivial: n>=2 and (non-destructive or non-fresh history), or any invalid case; distinct by canonical JSON."
    " Part 'readout_sweep': the schedule comes from a dask observation sweeping observation.readout.times with a generated start time; every run must observe its own time, time - start, start + time, counter 0 and both flags."
)
ASSUMPTIONS = [
    "schedules containing NaN, or a zero at a position other than the first, are neither required to be accepted nor rejected and are never generated",
    "the reference clock is computed with the same IEEE operations on the same parsed floats: time exact, step/absolute time within 2 ulp",
]
SHARDS = {"quick": 8, "thorough": 16}

BUCKETS = ("photon", "photon3d", "charge", "clusters", "pixel_add", "pixel", "signal", "image", "scene")


@st.composite
def write_plans(draw, n):
    plan = {}
    # cluster tables are kept rare: pyxel re-JITs its binning kernel on every read (~0.1 s each)
    pool = BUCKETS if draw(st.sampled_from([False] * 6 + [True])) else tuple(b for b in BUCKETS if b != "clusters")
    for b in draw(st.lists(st.sampled_from(pool), unique=True, max_size=6)):
        if b == "photon3d" and "photon" in plan or b == "photon" and "photon3d" in plan:
            continue
        elem = st.one_of(st.none(), st.integers(1, 200))
        if b in ("pixel", "pixel_add", "signal", "charge", "photon"):
            # these containers accept non-finite content (a model dividing by a zero flat leaves inf / nan behind)
            elem = st.one_of(st.none(), st.integers(1, 200), st.integers(1, 200), st.sampled_from(["nan", "inf", "mix"]))
        vals = draw(st.lists(elem, min_size=n, max_size=n))
        dt = "uint16" if b == "image" else draw(st.sampled_from(["float64", "float32"])) if b in ("photon", "signal", "pixel", "pixel_add") else "float64"
        plan[b] = {"dtype": dt, "values": vals}
    return plan


@st.composite
def valid_cases(draw):
    s = draw(schedules())
    n = len(s["times"])
    hist_kind = draw(st.sampled_from(["fresh", "leftovers", "leftovers", "runs", "runs"]))
    hist = {"kind": hist_kind}
    nd_main = draw(st.booleans())
    if hist_kind == "runs":
        hist["runs"] = []
        for _ in range(draw(st.integers(1, 3))):
            if draw(st.sampled_from([False, False, True])):
                # the earlier run used the very same times and mode and differs in its start time only (earlier, or between the two)
                other = draw(st.sampled_from([s["start"] - 0.5, s["start"] - 3.0, (s["start"] + s["times"][0]) / 2]))
                hs = {"start": float(other), "times": list(s["times"]), "render": "list"}
                hist["runs"].append({"sched": hs, "non_destructive": nd_main, "plan": draw(write_plans(n)), "same_times": True})
                continue
            hs = draw(schedules(max_n=3, renderings=("list",)))
            hist["runs"].append({"sched": hs, "non_destructive": draw(st.booleans()), "plan": draw(write_plans(len(hs["times"])))})
    entry = draw(st.sampled_from(["run_mode", "run_mode", "run_mode", "legacy"]))  # legacy = pyxel.exposure_mode (its own readout loop)
    plan = draw(write_plans(n))
    if entry == "legacy":
        # the older entry point assembles its result from pixel / signal / image / charge of every step: keep to those, written at every step
        # (what it does with other buckets or with steps that leave a bucket unset is its result assembly, not the clock of this property)
        plan = {b: {"dtype": "uint16" if b == "image" else "float64", "values": [draw(st.integers(1, 200)) for _ in range(n)]}
                for b in ["pixel", "signal", "image"] + draw(st.lists(st.sampled_from(["charge"]), max_size=1))}
    return {
        "sched": s,
        "non_destructive": nd_main,
        "det_type": draw(st.sampled_from(["CCD", "CMOS", "MKID", "APD"])),
        "shape": [draw(st.integers(1, 4)), draw(st.integers(1, 4))],
        "plan": plan,
        "history": hist,
        "yaml": draw(st.booleans()),
        "entry": entry,
    }


@st.composite
def invalid_cases(draw):
    s = draw(schedules(max_n=5, renderings=("list",), exact=True))
    return {
        "sched": s,
        "kind": draw(st.sampled_from(INVALID_KINDS)),
        "entry": draw(st.sampled_from(["ctor", "yaml", "times_setter", "start_setter", "replace", "set_readout", "observation_ctor"])),
        "non_destructive": draw(st.booleans()),
    }


def _pipeline(plan):
    P = "vprobes.models."
    return {"groups": {
        "scene_generation": [{"name": "first", "func": P + "clock_and_buckets", "enabled": True, "arguments": {"where": "first"}}],
        "charge_collection": [{"name": "w", "func": P + "writer", "enabled": True, "arguments": {"plan": plan, "tag": "w"}}],
        "data_processing": [{"name": "last", "func": P + "clock_and_buckets", "enabled": True, "arguments": {"where": "last"}}],
    }, "yaml_perm": 3}


def _plant_leftovers(det):
    import xarray as xr

    shp = det.geometry.shape
    det.photon.array = np.full(shp, 11.0)
    det.charge.add_charge_array(np.full(shp, 5.0))
    z = np.zeros(1)
    det.charge.add_charge(particle_type="e", particles_per_cluster=np.array([7.0]), init_energy=z,
                          init_ver_position=np.array([0.5 * det.geometry.pixel_vert_size]),
                          init_hor_position=np.array([0.5 * det.geometry.pixel_horz_size]), init_z_position=z,
                          init_ver_velocity=z, init_hor_velocity=z, init_z_velocity=z)
    det.pixel.array = np.full(shp, 99.0)
    det.signal.array = np.full(shp, 3.0)
    det.image.array = np.full(shp, 77, dtype=np.uint16)
    det.scene.add_source(xr.Dataset(
        {"x": ("ref", [1.0]), "y": ("ref", [1.0]), "weight": ("ref", [2.0]), "flux": (("ref", "wavelength"), np.ones((1, 2)))},
        coords={"ref": [0], "wavelength": [500.0, 600.0]}))
    det._memory["leftover"] = 1


def _arr_eq(a, b):
    if a is None or b is None:
        return a is None and b is None
    if isinstance(a, tuple) or isinstance(b, tuple):
        return isinstance(a, tuple) and isinstance(b, tuple) and _arr_eq(a[1], b[1])
    return a.shape == b.shape and a.dtype == b.dtype and bool(np.array_equal(a, b, equal_nan=True))


def _close(a, b):
    return a == b or math.isclose(a, b, rel_tol=4.5e-16, abs_tol=0.0) or abs(a - b) <= 2 * math.ulp(max(abs(a), abs(b)))


def body_valid(case, rec):
    from vprobes import models as P
    from pyxel.exposure import Readout

    s = case["sched"]
    times, start, n = s["times"], s["start"], len(s["times"])
    nd = case["non_destructive"]
    rec.cls(f"render:{s['render']}", "nd" if nd else "destructive", f"hist:{case['history']['kind']}",
            "start<0" if start < 0 else "start=0" if start == 0 else "start>0")
    rec.nt(n >= 2 and (nd or case["history"]["kind"] != "fresh"))
    if any(h.get("same_times") for h in case["history"].get("runs", [])):
        rec.cls("hist:same_times_other_start")
    det_spec = simple_spec(case["det_type"], row=case["shape"][0], col=case["shape"][1])
    spec = {"detector": det_spec, "pipeline": _pipeline(case["plan"]), "mode": {"kind": "exposure"},
            "readout": render_readout_kwargs(s, rec.tmp), "non_destructive": nd}
    cfg = None
    with rec.must_not_raise("valid_schedule_refused"):
        cfg = pyx.build(spec, render="yaml" if case["yaml"] else "python", tmp=rec.tmp)
    if cfg is None:
        return
    # ---- prior history of the detector object
    hist = case["history"]
    if hist["kind"] == "leftovers":
        _plant_leftovers(cfg.detector)
    elif hist["kind"] == "runs":
        import pyxel
        from pyxel.exposure import Exposure
        from vlib.gen_pipeline import build_pipeline

        for h in hist["runs"]:
            hp = build_pipeline(_pipeline(h["plan"]))
            hm = Exposure(readout=Readout(times=h["sched"]["times"], start_time=h["sched"]["start"], non_destructive=h["non_destructive"]))
            with rec.must_not_raise("valid_schedule_refused"):
                pyxel.run_mode(mode=hm, detector=cfg.detector, pipeline=hp, with_inherited_coords=True)
    P.reset()
    result = None
    with rec.must_not_raise("valid_schedule_refused"):
        result = pyx.run(cfg, with_inherited_coords=True, entry=case.get("entry", "run_mode"))
    if result is None:
        return
    rec.cls(f"entry:{case.get('entry', 'run_mode')}")
    snaps = list(P.SNAPS)
    firsts = [x for x in snaps if x["where"] == "first"]
    lasts = [x for x in snaps if x["where"] == "last"]
    if not rec.check(len(firsts) == n and len(lasts) == n, "wrong_number_of_steps", f"{len(firsts)} steps ran for {n} readout times"):
        return
    prev_t = start
    for i in range(n):
        for sn in (firsts[i], lasts[i]):
            w = f"step {i} ({sn['where']})"
            rec.check(sn["time"] == times[i], "clock_time", f"{w}: time {sn['time']!r} expected {times[i]!r}")
            rec.check(_close(sn["time_step"], times[i] - prev_t), "clock_time_step", f"{w}: step {sn['time_step']!r} expected {times[i] - prev_t!r}")
            rec.check(_close(sn["absolute_time"], start + times[i]), "clock_absolute_time", f"{w}: abs {sn['absolute_time']!r} expected {start + times[i]!r}")
            rec.check(sn["pipeline_count"] == i, "clock_counter", f"{w}: counter {sn['pipeline_count']}")
            rec.check(sn["is_first"] == (i == 0), "clock_first_flag", f"{w}: is_first_readout {sn['is_first']}")
            rec.check(sn["is_last"] == (i == n - 1), "clock_last_flag", f"{w}: is_last_readout {sn['is_last']} (n={n})")
            rec.check(sn["non_destructive"] == nd, "clock_mode_flag", f"{w}: non_destructive {sn['non_destructive']}")
        prev_t = times[i]
        b = firsts[i]["buckets"]
        w = f"start of step {i}"
        rec.check(b["scene_empty"] is True, "bucket_not_empty_at_step_start", f"{w}: scene holds {b.get('scene_children')}")
        rec.check(b["photon"] is None, "bucket_not_empty_at_step_start", f"{w}: photon holds data")
        rec.check(b["signal"] is None, "bucket_not_empty_at_step_start", f"{w}: signal holds data")
        rec.check(b["image"] is None, "bucket_not_empty_at_step_start", f"{w}: image holds data")
        rec.check(bool(np.all(b["charge"] == 0)) and b["charge_frame_len"] == 0, "bucket_not_empty_at_step_start",
                  f"{w}: charge array sum {b['charge'].sum()} clusters {b['charge_frame_len']}")
        px = b["pixel"]
        if not nd or i == 0:
            rec.check(px is not None and bool(np.all(px == 0)), "pixel_not_zero_at_step_start",
                      f"{w}: pixel {'EMPTY' if px is None else px.ravel()[:4]} (non_destructive={nd})")
        else:
            prev = lasts[i - 1]["buckets"]["pixel"]
            rec.check(_arr_eq(px, prev), "pixel_not_kept_non_destructive",
                      f"{w}: pixel {None if px is None else px.ravel()[:4]} previous step ended with {None if prev is None else prev.ravel()[:4]}")


def body_invalid(case, rec):
    import pyxel
    from vprobes import models as P
    from pyxel.exposure import Exposure, Readout
    from pyxel.observation import Observation, ParameterValues
    from vlib.gen_pipeline import build_pipeline

    P.reset()
    s, kind, entry = case["sched"], case["kind"], case["entry"]
    bad = mutate_invalid(s, kind)
    rec.cls(f"invalid:{kind}", f"entry:{entry}")
    rec.nt()
    nd = case["non_destructive"]
    det = build_detector(simple_spec("CCD", row=2, col=2))
    pipe_spec = _pipeline({"pixel_add": {"dtype": "float64", "values": [1]}})
    pipe = build_pipeline(pipe_spec)
    file_kw = {}
    if bad["both"]:
        np.save(rec.tmp / "t.npy", np.array(s["times"]))
        file_kw = {"times_from_file": str(rec.tmp / "t.npy")}

    def go():
        if entry == "ctor":
            ro = Readout(times=bad["times"], start_time=bad["start"], non_destructive=nd, **file_kw)
            pyxel.run_mode(mode=Exposure(readout=ro), detector=det, pipeline=pipe)
        elif entry == "observation_ctor":
            ro = Readout(times=bad["times"], start_time=bad["start"], non_destructive=nd, **file_kw)
            obs = Observation(parameters=[ParameterValues(key="detector.environment.temperature", values=[100.0, 200.0])], readout=ro)
            pyxel.run_mode(mode=obs, detector=det, pipeline=pipe)
        elif entry == "yaml":
            spec = {"detector": simple_spec("CCD", row=2, col=2), "pipeline": pipe_spec, "mode": {"kind": "exposure"},
                    "readout": dict({"times": bad["times"], "start_time": bad["start"]}, **file_kw), "non_destructive": nd}
            cfg = pyx.build(spec, render="yaml", tmp=rec.tmp)
            pyx.run(cfg)
        elif entry == "times_setter":
            if bad["both"] or kind in ("start_eq_first", "start_gt_first"):
                ro = Readout(times=[bad["start"] + 100.0], start_time=bad["start"], non_destructive=nd)
            else:
                ro = Readout(times=[max(s["times"]) + 100.0], start_time=bad["start"], non_destructive=nd)
            ro.times = bad["times"] if not bad["both"] else []
            pyxel.run_mode(mode=Exposure(readout=ro), detector=det, pipeline=pipe)
        elif entry == "start_setter":
            # only the start-time mutations are expressible through this entry point; others: ctor
            if kind in ("start_eq_first", "start_gt_first"):
                ro = Readout(times=s["times"], start_time=s["start"], non_destructive=nd)
                ro.start_time = bad["start"]
            else:
                ro = Readout(times=bad["times"], start_time=bad["start"], non_destructive=nd, **file_kw)
            pyxel.run_mode(mode=Exposure(readout=ro), detector=det, pipeline=pipe)
        elif entry == "replace":
            ro = Readout(times=s["times"], start_time=s["start"], non_destructive=nd)
            if bad["both"]:
                ro2 = ro.replace(times_from_file=file_kw["times_from_file"])
            else:
                ro2 = ro.replace(times=bad["times"], start_time=bad["start"])
            pyxel.run_mode(mode=Exposure(readout=ro2), detector=det, pipeline=pipe)
        elif entry == "set_readout":
            if bad["both"]:
                Readout(times=bad["times"], start_time=bad["start"], **file_kw)
            det.set_readout(times=bad["times"], start_time=bad["start"], non_destructive=nd)
            # a detector that accepted the schedule would now be stepped through it
            raise_if_accepted = det.readout_properties.num_steps
            rec.fail("invalid_schedule_accepted", f"set_readout accepted {bad} ({raise_if_accepted} steps)")
            raise RuntimeError("accepted")

    exc = rec.raises("invalid_schedule_accepted", go, detail=f"{kind} via {entry}: {bad}")
    if P.SNAPS or P.TRACE:
        rec.fail("model_ran_on_invalid_schedule", f"{kind} via {entry}: {len(P.SNAPS)} probe calls happened; error was {exc!r}")
    # ---- a refused change of a long-lived Readout: what runs afterwards is the schedule it held before, never the refused one
    if entry in ("times_setter", "start_setter") and not bad["both"]:
        ro = Readout(times=list(s["times"]), start_time=s["start"], non_destructive=nd)
        refused = False
        try:
            if entry == "times_setter" and kind not in ("start_eq_first", "start_gt_first"):
                ro.times = bad["times"]
            elif kind in ("start_eq_first", "start_gt_first"):
                ro.start_time = bad["start"]
            else:
                return
        except Exception:  # noqa: BLE001
            refused = True
        if not refused:
            return  # (acceptance is reported by the part above)
        P.reset()
        rec.cls("invalid:run_after_refused_setter")
        with rec.must_not_raise("run_after_refused_change_failed"):
            pyxel.run_mode(mode=Exposure(readout=ro), detector=build_detector(simple_spec("CCD", row=2, col=2)), pipeline=build_pipeline(pipe_spec))
        seen = [x["time"] for x in P.SNAPS if x["where"] == "first"]
        starts = {x["start_time"] for x in P.SNAPS}
        rec.check(seen == [float(t) for t in s["times"]] and starts <= {float(s["start"])}, "refused_schedule_in_effect",
                  f"{kind} via {entry}: after the refused change the run stepped through {seen} from start {sorted(starts)}, the readout held {s['times']} from {s['start']}")


# ------------------------------------------------------------------ the schedule comes from a sweep of the readout time (dask observation)
@st.composite
def sweep_cases(draw):
    """An observation sweeping 'observation.readout.times' (dask path): every run is one readout at its own time, from the configured start time."""
    start = draw(st.sampled_from([0.0, 0.0, 0.125, 0.5, -1.0, -2.5]))
    ts = draw(st.lists(st.sampled_from([0.75, 1.0, 2.0, 3.5, 6.0, 10.0]), min_size=1, max_size=4, unique=True))
    return {"start": start, "times": ts, "user_times": draw(st.sampled_from([[3.0, 4.0], [1.0], [0.75, 8.0, 9.0]])), "non_destructive": draw(st.booleans()),
            "shape": [draw(st.integers(1, 3)), draw(st.integers(1, 3))]}


def body_sweep(case, rec):
    from vprobes import models as P

    P.reset()
    start, ts = case["start"], case["times"]
    rec.cls("sweep:start_nonzero" if start else "sweep:start_0", f"sweep:runs:{len(ts)}")
    rec.nt(len(ts) >= 2 and start != 0)
    spec = {"detector": simple_spec("CCD", row=case["shape"][0], col=case["shape"][1]), "pipeline": _pipeline({"pixel_add": {"dtype": "float64", "values": [1]}}),
            "readout": {"times": list(case["user_times"]), "start_time": start}, "non_destructive": case["non_destructive"],
            "mode": {"kind": "observation", "mode": "product", "with_dask": True,
                     "parameters": [{"key": "observation.readout.times", "values": list(ts), "enabled": True}]}}
    ok = False
    with rec.must_not_raise("valid_schedule_refused"):
        pyx.run(pyx.build(spec), with_inherited_coords=True)
        ok = True
    if not ok:
        return
    firsts = [x for x in P.SNAPS if x["where"] == "first"]
    for t in ts:
        mine = [x for x in firsts if x["time"] == t]
        # (the dask path executes one element of the space once more to learn the result's layout)
        if not rec.check(1 <= len(mine) <= 2, "wrong_number_of_steps", f"readout time {t}: {len(mine)} steps observed it (times seen: {sorted({x['time'] for x in firsts})})"):
            continue
        for sn in mine:
            w = f"run read out at {t} from start {start}"
            rec.check(_close(sn["time_step"], t - start), "clock_time_step", f"{w}: step {sn['time_step']!r} expected {t - start!r}")
            rec.check(_close(sn["absolute_time"], start + t), "clock_absolute_time", f"{w}: abs {sn['absolute_time']!r} expected {start + t!r}")
            rec.check(_close(sn["start_time"], start), "clock_start_time", f"{w}: start_time {sn['start_time']!r}")
            rec.check(sn["pipeline_count"] == 0 and sn["is_first"] and sn["is_last"], "clock_counter", f"{w}: counter {sn['pipeline_count']} first {sn['is_first']} last {sn['is_last']}")
            rec.check(sn["non_destructive"] == case["non_destructive"], "clock_mode_flag", f"{w}: non_destructive {sn['non_destructive']}")
    other = sorted({x["time"] for x in firsts} - set(ts))
    rec.check(not other, "wrong_number_of_steps", f"steps at times never requested: {other}")


PARTS = {"valid": body_valid, "invalid": body_invalid, "readout_sweep": body_sweep}


def plan(tier):
    nv, ni = (100, 60) if tier == "quick" else (600, 300)
    return [
        Part(name="valid", kind="gen", strategy=valid_cases, examples=nv),
        Part(name="invalid", kind="gen", strategy=invalid_cases, examples=ni),
        Part(name="readout_sweep", kind="gen", strategy=sweep_cases, examples=20 if tier == "quick" else 150),
    ]
