"""C20 — input files are read and placed on the detector faithfully."""

from __future__ import annotations

import numpy as np
from hypothesis import strategies as st

from vlib.gen_detector import build_detector, simple_spec
from vlib.runner import Part

PROPERTY = "C20"
LEVEL = "exploration"
RULE = (
    "Part 'place': input and output shapes 1..8 x 1..8 independently, offsets -10..10 per axis or one of the five alignment "
    "keywords, allow_smaller_array on/off; oracle = per-pixel definition out[y,x] = in[y-oy, x-ox] or 0, non-overlap must "
    "raise. Part 'files': generated float / integer arrays 1..8 x 1..8 written by the harness as .npy, .fits, .txt/.data "
    "with each of the five delimiters (repr, so text round-trips exactly), read back through load_image and load_table. "
    "Part 'fresh': histories write A -> run -> rewrite the same path with B (same or other shape) -> run, 2..4 rewrites, "
    "through the load_image and load_charge models and the cached helper directly. Non-trivial: input larger than the "
    "output on an axis, a negative offset, a text format, or a rewrite; distinct by canonical JSON."
)
ASSUMPTIONS = [
    "corner keywords: bottom = row 0 (documented convention); 'center' may use either rounding of (out-in)/2",
    "text files are written with repr() (17 significant digits), which a correctly rounding reader maps back to the same double: all formats are compared exactly",
]
SHARDS = {"quick": 8, "thorough": 16}
ALIGN = ("center", "top_left", "top_right", "bottom_left", "bottom_right")
DELIMS = {"tab": "\t", "space": " ", "comma": ",", "bar": "|", "semicolon": ";"}


# ------------------------------------------------------------------ placement
@st.composite
def place_cases(draw):
    return {"in": [draw(st.integers(1, 8)), draw(st.integers(1, 8))], "out": [draw(st.integers(1, 8)), draw(st.integers(1, 8))],
            "pos": [draw(st.integers(-10, 10)), draw(st.integers(-10, 10))], "align": draw(st.sampled_from([None, None, *ALIGN])),
            "allow_smaller": draw(st.sampled_from([True, True, False])), "seed": draw(st.integers(0, 999))}


def _reference_place(arr, out_shape, oy, ox):
    out = np.zeros(out_shape)
    hit = False
    for y in range(out_shape[0]):
        for x in range(out_shape[1]):
            iy, ix = y - oy, x - ox
            if 0 <= iy < arr.shape[0] and 0 <= ix < arr.shape[1]:
                out[y, x] = arr[iy, ix]
                hit = True
    return out, hit


def _offsets(case):
    (iy, ix), (oy, ox) = case["in"], case["out"]
    al = case["align"]
    if al is None:
        return [(case["pos"][0], case["pos"][1])]
    if al == "bottom_left":
        return [(0, 0)]
    if al == "bottom_right":
        return [(0, ox - ix)]
    if al == "top_left":
        return [(oy - iy, 0)]
    if al == "top_right":
        return [(oy - iy, ox - ix)]
    import math

    ys = {math.floor((oy - iy) / 2), math.ceil((oy - iy) / 2)}
    xs = {math.floor((ox - ix) / 2), math.ceil((ox - ix) / 2)}
    return [(a, b) for a in ys for b in xs]


def body_place(case, rec):
    from pyxel.util import fit_into_array

    rng = np.random.RandomState(case["seed"])
    arr = rng.uniform(1.0, 100.0, size=tuple(case["in"]))  # strictly positive: zero means "not reached"
    out_shape = tuple(case["out"])
    al = case["align"]
    rec.cls(f"align:{al}", "larger" if (arr.shape[0] > out_shape[0] or arr.shape[1] > out_shape[1]) else "fits")
    rec.nt(arr.shape[0] > out_shape[0] or arr.shape[1] > out_shape[1] or (al is None and min(case["pos"]) < 0))
    refs = [_reference_place(arr, out_shape, oy, ox) for oy, ox in _offsets(case)]
    too_small = not case["allow_smaller"] and (arr.shape[0] < out_shape[0] or arr.shape[1] < out_shape[1])
    try:
        got = fit_into_array(array=arr.copy(), output_shape=out_shape, relative_position=tuple(case["pos"]), align=al,
                             allow_smaller_array=case["allow_smaller"])
        raised = None
    except Exception as exc:  # noqa: BLE001
        got, raised = None, exc
    if too_small:
        rec.cls("too_small_refused")
        rec.check(raised is not None, "smaller_array_accepted_although_forbidden", "")
        return
    if not any(hit for _, hit in refs):
        rec.cls("no_overlap")
        rec.check(isinstance(raised, ValueError), "no_overlap_not_rejected", f"in {arr.shape} out {out_shape} offsets {_offsets(case)}: {raised!r} / {None if got is None else got.tolist()}")
        return
    if all(not hit for _, hit in refs) is False and any(not hit for _, hit in refs):
        # 'center' ambiguity where one rounding overlaps and the other does not: either behaviour allowed
        if raised is not None:
            rec.exclude("center_rounding_ambiguous")
            return
    if not rec.check(raised is None, "valid_placement_refused", f"in {arr.shape} out {out_shape} pos {case['pos']} align {al}: {raised!r}"):
        return
    rec.check(got.shape == out_shape, "wrong_output_shape", f"{got.shape}")
    ok = any(np.array_equal(got, ref) for ref, hit in refs if hit)
    rec.check(ok, "pixel_placed_wrongly", lambda: f"in {arr.shape} out {out_shape} pos {case['pos']} align {al}: got\n{np.round(got, 1)}\nexpected\n{np.round(refs[0][0], 1)}")
    rec.check(bool(np.array_equal(arr, np.random.RandomState(case['seed']).uniform(1.0, 100.0, size=tuple(case['in'])))), "input_modified", "")


# ------------------------------------------------------------------ file round trips
_vals = st.one_of(st.floats(-1e12, 1e12, allow_nan=False), st.floats(-1.0, 1.0), st.sampled_from([0.0, -0.0, 1e-300, 1.7976931348623157e308, 0.1, 1 / 3, 2**53 + 2.0]))


@st.composite
def file_cases(draw):
    rows, cols = draw(st.integers(1, 8)), draw(st.integers(1, 8))
    kind = draw(st.sampled_from(["float", "float", "int"]))
    n = rows * cols
    if kind == "float":
        vals = draw(st.lists(_vals, min_size=n, max_size=n))
    else:
        vals = draw(st.lists(st.integers(-10**9, 10**9), min_size=n, max_size=n))
    fmt = draw(st.sampled_from(["npy", "fits", "txt", "txt", "data", "csv"]))
    return {"shape": [rows, cols], "kind": kind, "vals": vals, "fmt": fmt,
            "delim": draw(st.sampled_from(sorted(DELIMS))), "reader": draw(st.sampled_from(["image", "table"])),
            "np_dtype": draw(st.sampled_from(["float64", "float32", "int64", "int16", "uint16"]))}


def _write(path, arr, fmt, delim):
    if fmt == "npy":
        np.save(path, arr)
    elif fmt == "fits":
        from astropy.io import fits

        fits.PrimaryHDU(arr).writeto(path, overwrite=True)
    else:
        d = DELIMS[delim]
        with open(path, "w") as fh:
            for row in arr:
                fh.write(d.join(repr(x.item()) for x in row) + "\n")


def body_files(case, rec):
    from pyxel.inputs import load_image, load_table

    rows, cols = case["shape"]
    fmt, reader = case["fmt"], case["reader"]
    if reader == "image" and fmt == "csv":
        fmt = "txt"
    if reader == "table" and fmt in ("fits", "data"):
        fmt = "txt"
    arr = np.array(case["vals"], dtype=float if case["kind"] == "float" else np.int64).reshape(rows, cols)
    if fmt in ("npy", "fits"):
        dt = case["np_dtype"]
        if case["kind"] == "float":
            dt = dt if dt.startswith("float") else "float64"
        elif dt.startswith("float"):
            dt = "int64"
        with np.errstate(all="ignore"):
            info = np.iinfo(dt) if np.dtype(dt).kind in "iu" else None
            arr = (np.clip(arr, info.min, info.max) if info else arr).astype(dt)
    path = rec.tmp / f"in.{fmt}"
    _write(path, arr, fmt, case["delim"])
    rec.cls(f"fmt:{fmt}", f"reader:{reader}", f"delim:{case['delim']}" if fmt not in ("npy", "fits") else "binary")
    rec.nt(fmt not in ("npy",))
    got = None
    with rec.must_not_raise(f"valid_file_refused[{reader}:{fmt}:{case['delim'] if fmt not in ('npy', 'fits') else '-'}]"):
        if reader == "image":
            got = np.asarray(load_image(str(path)))
        else:
            got = load_table(str(path)).to_numpy()
    if got is None:
        return
    if not rec.check(got.shape == arr.shape, "shape_changed", f"{reader} {fmt} delim={case['delim']}: wrote {arr.shape}, read {got.shape}"):
        return
    want = arr.astype(float)
    g = np.asarray(got, dtype=float)
    ok = bool(np.array_equal(g, want))  # exact for every format (text is written with repr, which round-trips)
    rec.check(ok, "values_changed", lambda: f"{reader} {fmt} delim={case['delim']}: wrote {want.ravel()[:4]!r} read {g.ravel()[:4]!r}")


# ------------------------------------------------------------------ freshness
@st.composite
def fresh_cases(draw):
    n = draw(st.integers(2, 4))
    return {"via": draw(st.sampled_from(["load_image_model", "load_charge_model", "helper"])),
            "fmt": draw(st.sampled_from(["npy", "npy", "fits", "txt"])),
            "det": [draw(st.integers(1, 6)), draw(st.integers(1, 6))],
            "versions": [{"shape": [draw(st.integers(1, 6)), draw(st.integers(1, 6))] if draw(st.booleans()) else None, "seed": draw(st.integers(0, 10**6))} for _ in range(n)],
            "pos": [draw(st.integers(0, 2)), draw(st.integers(0, 2))], "mtime": draw(st.sampled_from(["advance", "advance", "restore_first"])),
            # how the model is told where the file is: absolute path, relative to the process's directory, or relative to
            # pyxel's global 'working_directory' option (as set by a YAML 'working_directory:' entry), possibly switched between runs
            "path_style": draw(st.sampled_from(["absolute", "absolute", "relative_cwd", "relative_workdir", "relative_workdir", "two_workdirs"]))}


def body_fresh(case, rec):
    import os

    from pyxel.models.charge_generation import load_charge
    from pyxel.models.photon_collection import load_image as load_image_model
    from pyxel.util import fit_into_array, load_cropped_and_aligned_image

    import pyxel

    rows, cols = case["det"]
    style = case.get("path_style", "absolute")
    rec.cls(f"via:{case['via']}", f"fmt:{case['fmt']}", f"path:{style}")
    rec.nt()
    name = f"frame.{case['fmt']}"
    folders = [rec.tmp]
    if style in ("relative_workdir", "two_workdirs"):
        folders = [rec.tmp / "data_a"] + ([rec.tmp / "data_b"] if style == "two_workdirs" else [])
        for f_ in folders:
            f_.mkdir()
    path = folders[0] / name
    base_shape = None
    first_stat = None
    for i, v in enumerate(case["versions"]):
        shape = tuple(v["shape"]) if v["shape"] else (base_shape or (rows, cols))
        if case["mtime"] == "restore_first" and i and shape == base_shape:
            shape = (shape[0] + 1, shape[1])  # same mtime as the first version, but another size
        base_shape = base_shape or shape
        content = np.random.RandomState(v["seed"]).uniform(1.0, 50.0, size=shape).round(3)
        if style == "two_workdirs":
            path = folders[i % 2] / name  # the same relative name, alternately in two working directories
            first_stat = None
        if style in ("relative_workdir", "two_workdirs"):
            pyxel.set_options(working_directory=str(path.parent))
        _write(path, content, case["fmt"], "comma")
        given = str(path) if style == "absolute" else name  # cwd is the case directory (= rec.tmp)
        # the harness owns the file clock: every rewrite is stamped one second after the previous one
        # ("advance"), or gets the first version's mtime back while its size differs ("restore_first")
        first_stat = first_stat or os.stat(path)
        if case["mtime"] == "restore_first":
            os.utime(path, ns=(first_stat.st_atime_ns, first_stat.st_mtime_ns))
        else:
            os.utime(path, ns=(first_stat.st_atime_ns, first_stat.st_mtime_ns + i * 1_000_000_000))
        pos = tuple(case["pos"])
        try:
            want = fit_into_array(array=content, output_shape=(rows, cols), relative_position=pos)
        except ValueError:
            want = None
        det = build_detector(simple_spec("CMOS", row=rows, col=cols))
        det.empty()
        det.set_readout(times=[1.0])
        det.time_step = 1.0
        got, raised = None, None
        try:
            if case["via"] == "load_image_model":
                load_image_model(det, image_file=given, position=pos)
                got = det.photon.array
            elif case["via"] == "load_charge_model":
                load_charge(det, filename=given, position=pos)
                got = det.charge.array
            else:
                got = load_cropped_and_aligned_image(shape=(rows, cols), filename=given, position_x=pos[1], position_y=pos[0])
        except Exception as exc:  # noqa: BLE001
            raised = exc
        if want is None:
            rec.check(raised is not None, "no_overlap_not_rejected", f"version {i}")
            continue
        if not rec.check(raised is None, "valid_file_refused", f"version {i}: {raised!r}"):
            continue
        rec.check(bool(np.array_equal(np.asarray(got, dtype=float), want)), "stale_or_wrong_content_loaded",
                  lambda: f"after rewrite #{i} ({case['via']}, {case['fmt']}, mtime={case['mtime']}, path={style}): loaded {np.asarray(got).ravel()[:3]} file holds {want.ravel()[:3]}")


# ------------------------------------------------------------------ "all array shapes": tables and images beyond a few kilobytes
def large_file_cases():
    out = []
    for shape in ([8, 400], [400, 8], [3, 2000], [120, 120]):
        for delim in sorted(DELIMS):
            for fmt, reader in (("txt", "table"), ("csv", "table"), ("txt", "image"), ("data", "image")):
                out.append({"shape": shape, "delim": delim, "fmt": fmt, "reader": reader, "vals_seed": shape[0] * 7 + shape[1]})
    return out


def body_large_files(case, rec):
    rng = np.random.RandomState(case["vals_seed"])
    rows, cols = case["shape"]
    vals = [float(x) for x in rng.uniform(-1e4, 1e4, size=rows * cols).round(6)]  # ~12 characters per value: rows of several kilobytes
    rec.cls(f"large:{rows}x{cols}")
    body_files(dict(case, kind="float", vals=vals, np_dtype="float64"), rec)


PARTS = {"place": body_place, "files": body_files, "fresh": body_fresh, "large_files": body_large_files}


def plan(tier):
    q = tier == "quick"
    return [
        Part(name="place", kind="gen", strategy=place_cases, examples=400 if q else 4000),
        Part(name="files", kind="gen", strategy=file_cases, examples=300 if q else 2000),
        Part(name="fresh", kind="gen", strategy=fresh_cases, examples=60 if q else 500),
        Part(name="large_files", kind="enum", cases=large_file_cases),
    ]
