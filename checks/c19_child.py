"""Child process of C19's 'processes' part: wait for a common wall-clock instant, start one exposure with outputs, print its folder."""
import json
import sys
import time
import warnings

warnings.simplefilter("ignore")
parent, start_at, level = sys.argv[1], float(sys.argv[2]), int(sys.argv[3])
from vlib import pyx  # noqa: E402
from vlib.gen_detector import simple_spec  # noqa: E402
from vlib.gen_paramspace import echo_pipeline  # noqa: E402

pipe = echo_pipeline()
pipe["groups"]["charge_collection"][0]["arguments"]["level"] = level
spec = {"detector": simple_spec("CCD", row=2, col=3), "pipeline": pipe, "readout": {"times": [1.0]}, "mode": {"kind": "exposure"},
        "outputs": {"output_folder": parent, "save_data_to_file": [{"detector.pixel.array": ["npy"]}]}}
cfg = pyx.build(spec)
while time.time() < start_at:  # all children start inside the same second (a schedule the harness sets up, not an oracle)
    time.sleep(0.001)
res = pyx.run(cfg, with_inherited_coords=True)
import numpy as np  # noqa: E402

print(json.dumps({"folder": str(cfg.mode.outputs.current_output_folder), "file": str(np.asarray(res["/output/pixel/filename"].values).ravel()[0]),
                  "pixel": float(np.asarray(res["/bucket/pixel"].values).ravel()[0])}))
