"""C11 — calibration fitness is the declared figure of merit on the declared data."""

from __future__ import annotations

import numpy as np
from hypothesis import strategies as st

from vlib import pyx, pyx_cal
from vlib.gen_detector import simple_spec
from vlib.runner import Part

PROPERTY = "C11"
LEVEL = "exploration"
RULE = (
    "Hypothesis generates a detector 3..8 x 3..6, 1..3 target / input-argument pairs (targets as .npy / .fits / .txt, "
    "2-D, or cubes for multi-readout calibrations), a fit-range pair from the classes {default (none), full, equal sub-range, "
    "shifted with equal extent, unequal extent with equal or different end point, exceeding the target}, weights (none, one "
    "per target, weight files), one of the three built-in fitness functions and decision vectors. Part 'problem': for accepted "
    "configurations problem.fitness(dv) must equal the sum over targets of F(sim_k[result range], target_k[target range], w_k) "
    "with F re-implemented in numpy and sim_k recomputed from the analytic probe; configurations with unequal extents or a "
    "range exceeding the target must raise before the first probe evaluation, configurations with equal extents must not be "
    "refused. Part 'run': re-simulating /champion/parameters reproduces /champion/fitness, /simulated/* and /full_size/*, and "
    "the champion fitness never increases over evolutions (sade, sga, and NLopt with every selection / replacement policy over 2..5 evolutions). Non-trivial: a sub-range or shifted range, or >=2 targets, or "
    "weights; distinct by canonical JSON."
)
ASSUMPTIONS = ["relative tolerance 1e-9 on fitness values (numba kernels, summation order)", "synchronous dask scheduler"]
SHARDS = {"quick": 8, "thorough": 16}
SHRINK = "none"  # the fields of a case constrain each other (ranges vs shapes vs readouts): a shrunk case would change meaning
FITNESS = {"abs": "pyxel.calibration.fitness.sum_of_abs_residuals", "squared": "pyxel.calibration.fitness.sum_of_squared_residuals",
           "chi2": "pyxel.calibration.fitness.reduced_chi_squared"}
RANGE_CLASSES = ("default", "full", "equal_sub", "equal_sub", "shifted", "shifted", "unequal_same_end", "unequal_diff_end", "exceeds_target")


@st.composite
def cases(draw, time_domain=None):
    rows, cols = draw(st.integers(3, 8)), draw(st.integers(3, 6))
    td = draw(st.sampled_from([False, False, True])) if time_domain is None else time_domain
    steps = draw(st.integers(2, 3)) if td else 1
    n_t = draw(st.integers(1, 3))
    cls = draw(st.sampled_from(RANGE_CLASSES))
    # sub-range geometry
    h, w = draw(st.integers(1, rows - 1)), draw(st.integers(1, cols - 1))
    r0, c0 = draw(st.integers(0, rows - h)), draw(st.integers(0, cols - w))
    tr0, tc0 = draw(st.integers(0, rows - h)), draw(st.integers(0, cols - w))
    if cls == "default":
        tfr, rfr = None, None
    elif cls == "full":
        tfr, rfr = [0, rows, 0, cols], [0, rows, 0, cols]
    elif cls == "equal_sub":
        tfr, rfr = [r0, r0 + h, c0, c0 + w], [r0, r0 + h, c0, c0 + w]
    elif cls == "shifted":
        tfr, rfr = [tr0, tr0 + h, tc0, tc0 + w], [r0, r0 + h, c0, c0 + w]
    elif cls == "unequal_same_end":
        # same end points, different start -> different extents
        if r0 + h >= 2:
            tfr, rfr = [max(r0 - 1, 0) if r0 > 0 else 1, r0 + h, c0, c0 + w], [r0 if r0 > 0 else 0, r0 + h, c0, c0 + w]
            if tfr[0] == rfr[0]:
                tfr[0] = rfr[0] + 1 if rfr[0] + 1 < r0 + h else rfr[0]
        else:
            tfr, rfr = [0, 1, 0, 2 if cols > 2 else 1], [0, 1, 1 if cols > 2 else 0, 2 if cols > 2 else 1]
    elif cls == "unequal_diff_end":
        tfr, rfr = [0, min(h + 1, rows), 0, w], [0, h, 0, w]
    else:  # exceeds_target
        tfr, rfr = [0, rows + 2, 0, cols], [0, rows + 2, 0, cols]
    frames = steps
    time_class = "same_frames"
    if td:
        frames = draw(st.sampled_from([steps, steps, steps, steps + 1, steps + 2, max(1, steps - 1)]))
    if td and draw(st.booleans()) and tfr is not None:
        lim = min(steps, frames)
        t1 = draw(st.integers(1, lim))
        t0 = draw(st.integers(0, t1 - 1))
        tt0, tt1 = t0, t1
        if frames != steps:
            time_class = draw(st.sampled_from(["within_both", "within_both", "beyond_target_frames", "shifted_in_time"]))
            if time_class == "beyond_target_frames":
                tt0, tt1 = 0, frames + 1          # stop beyond the cube (may still be <= number of readouts)
                t0, t1 = 0, min(frames + 1, steps)
            elif time_class == "shifted_in_time" and frames > t1:
                tt0, tt1 = t0 + (frames - lim if frames > lim else 0), t1 + (frames - lim if frames > lim else 0)
        else:
            time_class = "within_both"
        tfr, rfr = [tt0, tt1, *tfr], [t0, t1, *rfr]
    elif td and frames != steps:
        time_class = "implicit_time_extent_differs"
    weights = draw(st.sampled_from(["none", "none", "scalars", "files"]))
    fit = draw(st.sampled_from(sorted(FITNESS)))
    return {"frames": frames, "time_class": time_class, "shape": [rows, cols], "steps": steps, "time_domain": td, "n_targets": n_t, "range_class": cls, "target_fit_range": tfr, "result_fit_range": rfr,
            "weights": weights, "weight_values": [draw(st.sampled_from([0.5, 1.0, 2.0, 3.5])) for _ in range(n_t)], "fitness": fit,
            "target_seed": draw(st.integers(0, 10**6)), "offsets": [draw(st.sampled_from([0.0, 5.0, -3.0, 11.5])) for _ in range(n_t)],
            "fmt": draw(st.sampled_from(["npy", "npy", "fits", "txt"])) if not td else "npy",
            "result_type": draw(st.sampled_from(["pixel", "pixel", "signal", "image"])),
            "fractions": [[draw(st.floats(0.0, 1.0)) for _ in range(3)] for _ in range(draw(st.integers(1, 2)))]}


VARS = [{"arg": "p0", "key": "pipeline.charge_collection.cal.arguments.p0", "scalar": True, "n": 1, "log": False, "boundaries": [0.0, 10.0]},
        {"arg": "p1", "key": "pipeline.charge_collection.cal.arguments.p1", "scalar": False, "n": 2, "log": False, "boundaries": [[-5.0, 5.0], [0.0, 2.0]]}]


def _write(path, arr, fmt):
    if fmt == "npy":
        np.save(path, arr)
    elif fmt == "fits":
        from astropy.io import fits

        fits.PrimaryHDU(arr).writeto(path, overwrite=True)
    else:
        np.savetxt(path, arr, fmt="%.17g", delimiter=" ")


def _targets(case, tmp):
    rows, cols = case["shape"]
    rng = np.random.RandomState(case["target_seed"])
    shape = (case.get("frames", case["steps"]), rows, cols) if case["time_domain"] else (rows, cols)
    paths, arrays, wpaths, warrays = [], [], [], []
    for k in range(case["n_targets"]):
        a = rng.uniform(0.0, 60.0, size=shape).round(3)
        if k == 0:
            a.flat[0] = np.nan if case["fmt"] == "npy" and not case["time_domain"] else a.flat[0]  # a masked (NaN) target pixel
        p = tmp / f"target{k}.{case['fmt']}"
        _write(p, a, case["fmt"])
        paths.append(str(p))
        arrays.append(a)
        wa = rng.uniform(0.5, 3.0, size=shape).round(2)
        wp = tmp / f"weight{k}.{case['fmt']}"
        _write(wp, wa, case["fmt"])
        wpaths.append(str(wp))
        warrays.append(wa)
    return paths, arrays, wpaths, warrays


def _spec(case, tmp, algo=None, **extra):
    rows, cols = case["shape"]
    paths, arrays, wpaths, warrays = _targets(case, tmp)
    args = {"tag": "cal", "p0": 1.0, "p1": [1.0, 1.0], "offset": 0.0, "noise": float(case.get("noise", 0.0))}
    pipe = {"groups": {"charge_collection": [{"name": "cal", "func": "vprobes.models.cal_probe", "enabled": True, "arguments": args}]}, "yaml_perm": 0}
    params = [{"key": v["key"], "values": "_" if v["scalar"] else ["_"] * v["n"], "logarithmic": v["log"], "boundaries": v["boundaries"]} for v in VARS]
    ff = {"func": FITNESS[case["fitness"]]}
    if case["fitness"] == "chi2":
        ff["arguments"] = {"free_parameters": 3}
    mode = {"kind": "calibration", "target_data_path": paths, "fitness_function": ff,
            "algorithm": algo or {"type": "sade", "generations": 1, "population_size": 8},
            "parameters": params, "result_type": case["result_type"],
            "result_input_arguments": [{"key": "pipeline.charge_collection.cal.arguments.offset", "values": list(case["offsets"])}]}
    if case["target_fit_range"] is not None:
        mode["target_fit_range"] = list(case["target_fit_range"])
        mode["result_fit_range"] = list(case["result_fit_range"])
    if case["weights"] == "scalars":
        mode["weights"] = list(case["weight_values"])
    elif case["weights"] == "files":
        mode["weights_from_file"] = wpaths
    mode.update(extra)
    spec = {"detector": simple_spec("CCD", row=rows, col=cols), "pipeline": pipe, "mode": mode}
    if case.get("pipeline_seed") is not None:
        spec["pipeline_seed"] = case["pipeline_seed"]
    if case["time_domain"]:
        spec["readout"] = {"times": [float(i + 1) for i in range(case["steps"])]}
    return spec, arrays, warrays


def _sim(case, params, k):
    """What the analytic probe produces for target k with these parameters: (steps, rows, cols) of the result type."""
    from vprobes.models import cal_frame

    rows, cols = case["shape"]
    vals = {"p0": float(params[0]), "p1": [float(params[1]), float(params[2])]}
    frames = []
    # every exposure of a seeded calibration starts from the declared seed (numpy's legacy global stream)
    rs = np.random.RandomState(case["pipeline_seed"]) if case.get("noise") else None
    for s in range(case["steps"]):
        f = cal_frame((rows, cols), vals, step=s, offset=case["offsets"][k] + 1000.0 * 0.5)
        if rs is not None:
            f = f + rs.normal(0.0, float(case["noise"]), size=f.shape)
        if case["result_type"] == "signal":
            f = f * 0.5
        elif case["result_type"] == "image":
            f = np.clip(np.abs(f), 0, 60000).astype(np.uint16).astype(float)
        frames.append(f)
    return np.array(frames, dtype=float)


def _slices(fr, steps, td):
    """(time slice, row slice, col slice) for a 4- or 6-element range or None."""
    if fr is None:
        return slice(None), slice(None), slice(None)
    if len(fr) == 4:
        return slice(None), slice(fr[0], fr[1]), slice(fr[2], fr[3])
    return slice(fr[0], fr[1]), slice(fr[2], fr[3]), slice(fr[4], fr[5])


def _F(kind, sim, target, w):
    diff = target - sim
    if kind == "abs":
        return float(np.nansum(np.abs(diff * w)))
    if kind == "squared":
        return float(np.nansum(diff * diff * w))
    dev2 = np.square(diff / w)
    dof = np.isfinite(diff).sum() - 3
    return float(np.nansum(dev2)) / dof


def reference_fitness(case, params, targets, warrays):
    ts, tr, tc = _slices(case["target_fit_range"], case["steps"], case["time_domain"])
    rs, rr, rc = _slices(case["result_fit_range"], case["steps"], case["time_domain"])
    total = 0.0
    for k in range(case["n_targets"]):
        sim = _sim(case, params, k)[rs, rr, rc]
        tgt = targets[k]
        tgt = tgt[ts, tr, tc] if case["time_domain"] else tgt[tr, tc][None, ...]
        if case["weights"] == "scalars":
            w = np.full(tgt.shape, case["weight_values"][k])
        elif case["weights"] == "files":
            wa = warrays[k]
            w = wa[ts, tr, tc] if case["time_domain"] else wa[tr, tc][None, ...]
        else:
            w = np.ones(tgt.shape)
        total += _F(case["fitness"], sim, tgt, w)
    return total


def _expectation(case):
    cls = case["range_class"]
    if cls in ("unequal_same_end", "unequal_diff_end", "exceeds_target"):
        return "reject"
    if case.get("time_class") in ("beyond_target_frames", "implicit_time_extent_differs"):
        return "reject"  # the time range exceeds the cube, or all frames vs all readouts are of different extent
    return "accept"


def _degenerate_chi2(case):
    """reduced chi-squared needs more data points than free parameters (3): such selections are outside its domain."""
    if case["fitness"] != "chi2" or _expectation(case) == "reject":
        return False
    rows, cols = case["shape"]
    ts, tr, tc = _slices(case["target_fit_range"], case["steps"], case["time_domain"])
    n = len(range(*ts.indices(case.get("frames", case["steps"])))) * len(range(*tr.indices(rows))) * len(range(*tc.indices(cols)))
    return n <= 5


def body_problem(case, rec):
    from vprobes import models as P

    P.reset()
    if _degenerate_chi2(case):
        rec.exclude("chi2_with_too_few_points")
        case = dict(case, fitness="squared")
    exp = _expectation(case)
    rec.cls(f"range:{case['range_class']}", f"weights:{case['weights']}", f"fitness:{case['fitness']}", "time_domain" if case["time_domain"] else "single_readout",
            f"targets:{case['n_targets']}", f"ranges:{'none' if case['target_fit_range'] is None else len(case['target_fit_range'])}",
            f"time:{case.get('time_class', 'same_frames')}")
    rec.nt(case["range_class"] in ("equal_sub", "shifted") or case["n_targets"] >= 2 or case["weights"] != "none")
    spec, targets, warrays = _spec(case, rec.tmp)
    problem, raised = None, None
    try:
        cfg = pyx.build(spec)
        problem = pyx_cal.make_problem(cfg.mode, cfg.detector, cfg.pipeline)
    except Exception as exc:  # noqa: BLE001
        raised = exc
    if exp == "reject":
        ok = raised is not None
        if raised is None:
            # rejected at the latest before the first evaluation: nothing may have been evaluated, and evaluating must not "work"
            rec.fail(f"invalid_fit_ranges_accepted:{case['range_class']}:{case.get('time_class')}",
                     f"target {case['target_fit_range']} result {case['result_fit_range']} (detector {case['shape']}, {case['steps']} readouts, target cube of {case.get('frames')} frames) was accepted")
        rec.check(not P.CAL_LOG, "pipeline_ran_before_rejection", f"{len(P.CAL_LOG)} evaluations")
        return
    if not rec.check(raised is None, f"valid_fit_ranges_refused:{case['range_class']}",
                     f"target {case['target_fit_range']} result {case['result_fit_range']} (detector {case['shape']}, time_domain={case['time_domain']}): {raised!r}"[:400]):
        return
    lo, hi = pyx_cal.reference_bounds(VARS)
    for fr in case["fractions"]:
        dv = [l + f * (h - l) for l, h, f in zip(lo, hi, fr)]
        got = None
        with rec.must_not_raise(f"fitness_evaluation_failed[{case['weights']},{case['range_class']},{'td' if case['time_domain'] else '2d'}]"):
            got = float(problem.fitness(np.array(dv))[0])
        if got is None:
            continue
        want = reference_fitness(case, dv, targets, warrays)
        ok = np.isclose(got, want, rtol=1e-9, atol=1e-9) or (np.isnan(got) and np.isnan(want))
        rec.check(ok, f"fitness_differs_from_declared_figure_of_merit[{case['weights']}]",
                  f"{case['fitness']} targets={case['n_targets']} ranges t={case['target_fit_range']} r={case['result_fit_range']} weights={case['weights']} "
                  f"time_domain={case['time_domain']}: fitness {got!r}, declared figure of merit {want!r}")


@st.composite
def run_cases(draw):
    c = draw(cases())
    if _expectation(c) == "reject":
        c["range_class"], c["target_fit_range"], c["result_fit_range"] = "full", [0, c["shape"][0], 0, c["shape"][1]], [0, c["shape"][0], 0, c["shape"][1]]
        c["frames"], c["time_class"] = c["steps"], "same_frames"
    if c.get("frames", c["steps"]) != c["steps"]:
        # known finding K5 (result assembly fails when the target cube has another number of frames): excluded here, probed separately
        c["frames"], c["time_class"] = c["steps"], "same_frames"
        if c["target_fit_range"] is not None and len(c["target_fit_range"]) == 6:
            t1 = min(c["target_fit_range"][1], c["steps"])
            t0 = min(c["target_fit_range"][0], t1 - 1)
            c["target_fit_range"][0:2] = [t0, t1]
            c["result_fit_range"][0:2] = [t0, t1]
    c["islands"] = draw(st.integers(1, 2))
    c["evolutions"] = draw(st.integers(1, 3))
    c["pygmo_seed"] = draw(st.integers(0, 100000))
    c["rewrite_targets"] = draw(st.sampled_from([False, False, True]))
    # the optimiser: sade, sga, or NLopt working on the best / the worst / a random individual and replacing the best / worst / a random one
    # (with 'random' or 'worst' the best point ever seen can leave the population: the reported champion must stay that best point)
    c["algo"] = draw(st.sampled_from(["sade", "sade", "sga", "nlopt", "nlopt"]))
    if c["algo"] == "nlopt":
        c["nlopt_selection"], c["replacement"] = draw(st.sampled_from(["best", "random", "random", "worst"])), draw(st.sampled_from(["best", "best", "worst", "random"]))
        c["evolutions"] = draw(st.integers(2, 5))
    c["range_entry"] = draw(st.sampled_from(["ctor", "ctor", "setter", "override"]))
    # a stochastic pipeline made reproducible by the declared pipeline_seed: the figure of merit and the returned data are those of the seeded run
    if draw(st.booleans()):
        c["noise"], c["pipeline_seed"] = draw(st.sampled_from([0.5, 3.0])), draw(st.integers(0, 2**31 - 1))
        c["islands"] = 1  # islands evolve in parallel threads and seeded stochastic runs race on the global generator there (C07's known finding K2)
    return c


def body_run(case, rec):
    from vprobes import models as P

    P.reset()
    if _degenerate_chi2(case):
        rec.exclude("chi2_with_too_few_points")
        case = dict(case, fitness="squared")
    rec.cls("run:seeded_noise" if case.get("noise") else "run:deterministic")
    rec.cls(f"run:range:{case['range_class']}", f"run:weights:{case['weights']}", f"run:islands:{case['islands']}", "run:time_domain" if case["time_domain"] else "run:single_readout")
    rec.nt(True)
    _run_once(case, rec, "")
    if case.get("rewrite_targets") and not rec.failures:
        # the same target / weight paths now hold other data: a second calibration in this process must use what the files hold now
        rec.cls("run:second_calibration_after_target_rewrite")
        _run_once(dict(case, target_seed=case["target_seed"] + 7919), rec, "second calibration after the target files were rewritten: ")


def _run_once(case, rec, where):
    algo = {"type": case.get("algo", "sade"), "generations": 2, "population_size": 8}
    if algo["type"] == "nlopt":
        algo.update({"nlopt_solver": "neldermead", "maxeval": 12, "nlopt_selection": case["nlopt_selection"], "replacement": case["replacement"]})
    rec.cls("run:algo:" + algo["type"] + (f":{case['nlopt_selection']}/{case['replacement']}" if algo["type"] == "nlopt" else ""))
    spec, targets, warrays = _spec(case, rec.tmp, algo=algo,
                                   pygmo_seed=case["pygmo_seed"], num_islands=case["islands"], num_evolutions=case["evolutions"])
    res = None
    entry = case.get("range_entry", "ctor") if case["target_fit_range"] is not None else "ctor"
    rec.cls(f"run:ranges_declared_by:{entry}")
    with rec.must_not_raise(f"valid_calibration_failed[{case['range_class']},{'td' if case['time_domain'] else '2d'},{case['weights']}]"):
        if entry == "ctor":
            res = pyx.run(pyx.build(spec), with_inherited_coords=True)
        else:
            # the Calibration object is constructed without fit ranges (= everything); the declared ranges are given afterwards, through the
            # attributes or through a run_mode override: they are what the calibration must use
            declared_t, declared_r = list(spec["mode"].pop("target_fit_range")), list(spec["mode"].pop("result_fit_range"))
            cfg = pyx.build(spec)
            if entry == "setter":
                cfg.mode.target_fit_range, cfg.mode.result_fit_range = declared_t, declared_r
                res = pyx.run(cfg, with_inherited_coords=True)
            else:
                res = pyx.run(cfg, with_inherited_coords=True, override_dct={"calibration.target_fit_range": declared_t, "calibration.result_fit_range": declared_r})
    if res is None:
        return
    fit = np.asarray(res["/champion/fitness"].values, dtype=float)  # (island, evolution)
    par = np.asarray(res["/champion/parameters"].values, dtype=float)
    for isl in range(fit.shape[0]):
        for ev in range(fit.shape[1]):
            want = reference_fitness(case, par[isl, ev], targets, warrays)
            rec.check(np.isclose(fit[isl, ev], want, rtol=1e-9, atol=1e-9), "champion_fitness_not_reproducible",
                      f"{where}island {isl} evolution {ev}: reported {fit[isl, ev]!r}, re-simulating the reported parameters gives {want!r}")
        rec.check(bool(np.all(np.diff(fit[isl]) <= 1e-9 * np.maximum(1.0, np.abs(fit[isl][:-1])))), "champion_fitness_got_worse", f"island {isl}: {fit[isl].tolist()}")
    # returned simulated data of the last champions
    rs, rr, rc = _slices(case["result_fit_range"], case["steps"], case["time_domain"])
    b = case["result_type"]
    for name, restricted in ((f"/simulated/{b}", True), (f"/full_size/simulated_{b}", False)):
        got = None
        with rec.must_not_raise(f"simulated_data_not_computable[{name.split('/')[1]}]"):
            with pyx.scheduler("synchronous", 1):  # (seeded stochastic runs under a threaded scheduler race on the global generator: C07's K2)
                got = np.asarray(res[name].compute().values, dtype=float)  # (island, processor, readout_time, y, x)
        if got is None:
            continue
        for isl in range(fit.shape[0]):
            for k in range(case["n_targets"]):
                sim = _sim(case, par[isl, -1], k)
                want = sim[rs, rr, rc] if restricted else sim
                g = got[isl, k]
                ok = g.shape == want.shape and bool(np.allclose(g, want, rtol=1e-12, atol=1e-9))
                rec.check(ok, f"returned_simulated_data_differs[{name.split('/')[1]}]", f"{name} island {isl} target {k}: shape {g.shape} vs {want.shape}; {g.ravel()[:3]} vs {want.ravel()[:3]}")


def k5_cases():
    return [{"frames": 3, "time_class": "within_both", "shape": [4, 3], "steps": 2, "time_domain": True, "n_targets": 1, "range_class": "full",
             "target_fit_range": [0, 2, 0, 4, 0, 3], "result_fit_range": [0, 2, 0, 4, 0, 3], "weights": "none", "weight_values": [1.0], "fitness": "abs",
             "target_seed": 3, "offsets": [0.0], "fmt": "npy", "result_type": "pixel", "fractions": [[0.5, 0.5, 0.5]], "islands": 1, "evolutions": 1, "pygmo_seed": 7}]


PARTS = {"problem": body_problem, "run": body_run, "k5_target_cube_with_other_frame_count": body_run}


def known_key(part, clause, case, detail):
    if part == "k5_target_cube_with_other_frame_count" and case.get("frames") != case.get("steps") and clause.startswith("valid_calibration_failed"):
        return "K5-target-cube-frames-differ-from-readouts"
    return None


def plan(tier):
    q = tier == "quick"
    return [
        Part(name="problem", kind="gen", strategy=cases, examples=120 if q else 1000),
        Part(name="run", kind="gen", strategy=run_cases, examples=8 if q else 60),
        Part(name="k5_target_cube_with_other_frame_count", kind="enum", cases=k5_cases, shards=1),
    ]
