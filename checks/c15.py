"""C15 — charge-handling models neither create nor lose charge unaccountably."""

from __future__ import annotations

import numpy as np
from hypothesis import strategies as st

from vlib.gen_detector import build_detector, simple_spec
from vlib.runner import Part

PROPERTY = "C15"
LEVEL = "exploration"
RULE = (
    "Hypothesis generates non-negative frames (classes: all zero, uniform, single hot pixel, random, saturated, huge) on "
    "detectors 1..7 x 1..7 and in-range parameters for each listed library model: simple_collection, simple_conversion "
    "(binomial on/off, QE from argument or detector, 2-D and multi-wavelength photons), conversion_with_qe_map (per-pixel efficiency maps read from npy / fits files, with pixels of exactly 0 and 1), simple_full_well, simple_ipc, cdm "
    "(parallel/serial, 1..5 trap species, charge injection), simple_persistence and persistence (1..5 species, with/without "
    "capacities, 1..4 repeated steps with generated time steps). Oracles are the accounting identities of the statement. "
    "Non-trivial: the frame has a non-zero pixel and (>=2 species, or a saturated pixel, or >=2 steps, or a boundary "
    "parameter); distinct by canonical JSON."
)
ASSUMPTIONS = [
    "CDM: volume, period and full well strictly positive (the model divides by them); the all-zero corner is not generated",
    "persistence: time constants > 0, densities/proportions in [0,1] with sum <= 1, capacities >= 0",
    "float tolerances: 1e-9 relative for accounting sums (numba fastmath kernels), exact elsewhere",
]
SHARDS = {"quick": 8, "thorough": 16}


@st.composite
def frames(draw, max_dim=7, hi=1e5):
    rows, cols = draw(st.integers(1, max_dim)), draw(st.integers(1, max_dim))
    kind = draw(st.sampled_from(["zero", "uniform", "hot", "random", "random", "saturated", "huge"]))
    return {"rows": rows, "cols": cols, "kind": kind, "seed": draw(st.integers(0, 10**6)),
            "level": draw(st.one_of(st.integers(0, 1000).map(float), st.floats(0.0, hi)))}


def make_frame(f, fwc=1e5):
    rows, cols = f["rows"], f["cols"]
    rng = np.random.RandomState(f["seed"])
    k = f["kind"]
    if k == "zero":
        return np.zeros((rows, cols))
    if k == "uniform":
        return np.full((rows, cols), float(f["level"]))
    if k == "hot_far":  # a compact faint source in an otherwise empty frame, in the part of the long axis that is far from the output node
        a = np.zeros((rows, cols))
        along_rows = rows >= cols
        n_long = rows if along_rows else cols
        i0 = min(n_long - 1, int(0.5 * n_long) + rng.randint(max(1, int(0.3 * n_long))))  # (trailing pixels remain behind it to receive what is released)
        for d in range(1 + rng.randint(3)):
            i = min(n_long - 1, i0 + d)
            if along_rows:
                a[i, :] = float(f["level"]) + 1.0
            else:
                a[:, i] = float(f["level"]) + 1.0
        return a
    if k == "hot":
        a = np.zeros((rows, cols))
        a[rng.randint(rows), rng.randint(cols)] = float(f["level"]) + 1.0
        return a
    if k == "random":
        return rng.uniform(0.0, max(f["level"], 1.0), size=(rows, cols))
    if k == "saturated":
        a = rng.uniform(0.0, fwc, size=(rows, cols))
        a[rng.randint(rows), rng.randint(cols)] = fwc * 1.5
        a[rng.randint(rows), rng.randint(cols)] = fwc
        return a
    return rng.uniform(0.0, 1e9, size=(rows, cols))


def _det(typ, f, **ch):
    return build_detector(simple_spec(typ, row=f["rows"], col=f["cols"], **ch))


def _clock(det, dt):
    det.set_readout(times=[dt], start_time=0.0)
    det.time_step = dt
    det.time = dt


# ------------------------------------------------------------------ simple collection
@st.composite
def collection_cases(draw):
    return {"pixel": draw(frames()), "charge_seed": draw(st.integers(0, 10**6)), "clusters": draw(st.booleans()),
            "det": draw(st.sampled_from(["CCD", "CMOS", "MKID", "APD"]))}


def body_collection(case, rec):
    from pyxel.models.charge_collection import simple_collection

    f = case["pixel"]
    det = _det(case["det"], f)
    det.empty()
    px = make_frame(f)
    ch = make_frame(dict(f, seed=case["charge_seed"], kind="random"))
    det.pixel.array = px.copy()
    det.charge.add_charge_array(ch.copy())
    rec.cls("model:simple_collection")
    rec.nt(bool(px.any() and ch.any()))
    with rec.must_not_raise("model_failed"):
        simple_collection(det)
        out = det.pixel.array
        rec.check(bool(np.array_equal(out, px + ch)), "collection_not_exact", f"max diff {np.max(np.abs(out - (px + ch)))}")
        rec.check(bool(np.array_equal(det.charge.array, ch)), "collection_changed_charge", "")


# ------------------------------------------------------------------ photo-conversion
@st.composite
def conversion_cases(draw):
    return {"photon": draw(frames(hi=1e6)), "qe_arg": draw(st.one_of(st.none(), st.sampled_from([0.0, 1.0, 0.5]), st.floats(0.0, 1.0))),
            "qe_det": draw(st.one_of(st.sampled_from([0.0, 1.0, 0.5]), st.floats(0.0, 1.0))),
            "binomial": draw(st.booleans()), "nw": draw(st.sampled_from([0, 0, 2, 3, 4, 5])),
            # spacing of the wavelength grid: regular, or generated unequal intervals (the container accepts any increasing coordinate)
            "wl_steps": draw(st.one_of(st.none(), st.lists(st.sampled_from([1.0, 5.0, 20.0, 50.0, 130.0]), min_size=4, max_size=4))), "seed": draw(st.one_of(st.none(), st.integers(0, 2**31))),
            "det": draw(st.sampled_from(["CCD", "CMOS", "MKID", "APD"])), "prior_charge": draw(st.booleans())}


def body_conversion(case, rec):
    import xarray as xr
    from pyxel.models.charge_generation import simple_conversion

    f = case["photon"]
    det = _det(case["det"], f, quantum_efficiency=case["qe_det"])
    det.empty()
    ph = make_frame(f)
    if f["kind"] == "huge":
        ph = np.minimum(ph, 1e9)
    nw = case["nw"]
    if nw:
        steps = case.get("wl_steps") or [50.0] * 4
        wl = [400.0 + sum(steps[:i]) for i in range(nw)]
        if case.get("wl_steps") and len(set(steps[:nw - 1])) > 1:
            rec.cls("3d:irregular_wavelength_grid")
        cube = np.stack([ph * (i + 1) / nw for i in range(nw)])
        det.photon.array_3d = xr.DataArray(cube, dims=["wavelength", "y", "x"], coords={"wavelength": wl})
        # trapezoidal integral over wavelength, computed by the harness
        ph2 = np.zeros_like(ph)
        for i in range(nw - 1):
            ph2 += 0.5 * (cube[i] + cube[i + 1]) * (wl[i + 1] - wl[i])
    else:
        det.photon.array = ph.copy()
        ph2 = ph
    prior = np.full(ph.shape, 3.0) if case["prior_charge"] else np.zeros(ph.shape)
    if case["prior_charge"]:
        det.charge.add_charge_array(prior.copy())
    qe = case["qe_arg"] if case["qe_arg"] is not None else case["qe_det"]
    rec.cls("model:simple_conversion", "binomial" if case["binomial"] else "expectation", "3d" if nw else "2d")
    rec.nt(bool(ph.any()) and (qe in (0.0, 1.0) or nw > 0 or f["kind"] in ("saturated", "huge")))
    kw = {"binomial_sampling": case["binomial"]}
    if case["qe_arg"] is not None:
        kw["quantum_efficiency"] = case["qe_arg"]
    if case["seed"] is not None:
        kw["seed"] = case["seed"]
    with rec.must_not_raise("model_failed"):
        simple_conversion(det, **kw)
        out = det.charge.array - prior
        if case["binomial"]:
            rec.check(bool(np.all(out == np.floor(out))), "conversion_not_integer", f"{out.ravel()[:4]}")
            rec.check(bool(np.all(out >= 0) and np.all(out <= np.floor(ph2) + 0.0)), "conversion_outside_0_to_photons",
                      lambda: f"qe={qe}: out {out.ravel()[:4]} photons {ph2.ravel()[:4]}")
            if qe == 0.0:
                rec.check(not out.any(), "conversion_outside_0_to_photons", "qe=0 produced charge")
            if qe == 1.0:
                rec.check(bool(np.array_equal(out, np.floor(ph2))), "conversion_outside_0_to_photons", "qe=1 lost photons")
        else:
            want = ph2 * qe
            if case["prior_charge"]:
                ok = bool(np.allclose(out, want, rtol=1e-12, atol=1e-9))
            elif nw:  # the harness integrates over wavelength itself: summation order may differ in the last bits
                ok = bool(np.allclose(out, want, rtol=1e-12, atol=1e-300))
            else:
                ok = bool(np.array_equal(out, want))
            rec.check(ok, "conversion_not_qe_times_photons", lambda: f"qe={qe}: out {out.ravel()[:4]} want {want.ravel()[:4]}")



# ------------------------------------------------------------------ photo-conversion with a per-pixel efficiency map
@st.composite
def qe_map_cases(draw):
    return {"photon": draw(frames(hi=1e6)), "map_seed": draw(st.integers(0, 10**6)), "map_kind": draw(st.sampled_from(["random", "random", "zeros_and_ones", "uniform"])),
            "map_level": draw(st.one_of(st.sampled_from([0.0, 1.0, 0.5]), st.floats(0.0, 1.0))), "binomial": draw(st.booleans()),
            "seed": draw(st.one_of(st.none(), st.integers(0, 2**31))), "det": draw(st.sampled_from(["CCD", "CMOS", "MKID", "APD"])), "fmt": draw(st.sampled_from(["npy", "fits"]))}


def body_qe_map(case, rec):
    from pyxel.models.charge_generation import conversion_with_qe_map

    f = case["photon"]
    det = _det(case["det"], f)
    det.empty()
    ph = make_frame(f)
    if f["kind"] == "huge":
        ph = np.minimum(ph, 1e9)
    det.photon.array = ph.copy()
    rng = np.random.RandomState(case["map_seed"])
    if case["map_kind"] == "random":
        qe = rng.uniform(0.0, 1.0, size=ph.shape)
        qe.flat[rng.randint(qe.size)] = 0.0
        qe.flat[rng.randint(qe.size)] = 1.0
    elif case["map_kind"] == "zeros_and_ones":
        qe = rng.randint(0, 2, size=ph.shape).astype(float)
    else:
        qe = np.full(ph.shape, float(case["map_level"]))
    path = rec.tmp / f"qe_map.{case['fmt']}"
    if case["fmt"] == "npy":
        np.save(path, qe)
    else:
        from astropy.io import fits

        fits.PrimaryHDU(qe).writeto(path, overwrite=True)
    rec.cls("model:conversion_with_qe_map", "binomial" if case["binomial"] else "expectation", f"map:{case['map_kind']}")
    rec.nt(bool(ph.any()))
    kw = {"filename": str(path), "binomial_sampling": case["binomial"]}
    if case["seed"] is not None:
        kw["seed"] = case["seed"]
    with rec.must_not_raise("model_failed"):
        conversion_with_qe_map(det, **kw)
        out = np.array(det.charge.array, dtype=float)
        if case["binomial"]:
            rec.check(bool(np.all(out == np.floor(out))), "conversion_not_integer", f"{out.ravel()[:4]}")
            rec.check(bool(np.all(out >= 0) and np.all(out <= np.floor(ph))), "conversion_outside_0_to_photons",
                      lambda: f"qe map: out {out.ravel()[:4]} photons {ph.ravel()[:4]}")
            rec.check(not out[qe == 0.0].any(), "conversion_outside_0_to_photons", "pixels of efficiency 0 produced charge")
            rec.check(bool(np.array_equal(out[qe == 1.0], np.floor(ph)[qe == 1.0])), "conversion_outside_0_to_photons", "pixels of efficiency 1 lost photons")
        else:
            want = ph * qe
            rec.check(bool(np.array_equal(out, want)), "conversion_not_qe_times_photons", lambda: f"qe map: out {out.ravel()[:4]} want {want.ravel()[:4]}")

# ------------------------------------------------------------------ full well
@st.composite
def fullwell_cases(draw):
    return {"pixel": draw(frames()), "fwc_arg": draw(st.one_of(st.none(), st.integers(0, 10**7), st.floats(0.0, 1e7))),
            "fwc_det": draw(st.one_of(st.sampled_from([0.0, 1e5, 1e7]), st.floats(0.0, 1e7))), "det": draw(st.sampled_from(["CCD", "CMOS", "APD"]))}


def body_fullwell(case, rec):
    from pyxel.models.charge_collection import simple_full_well

    f = case["pixel"]
    det = _det(case["det"], f, full_well_capacity=case["fwc_det"])
    det.empty()
    fwc = case["fwc_arg"] if case["fwc_arg"] is not None else case["fwc_det"]
    px = make_frame(f, fwc=max(fwc, 1.0))
    det.pixel.array = px.copy()
    rec.cls("model:simple_full_well")
    rec.nt(bool((px > fwc).any()))
    kw = {} if case["fwc_arg"] is None else {"fwc": case["fwc_arg"]}
    with rec.must_not_raise("model_failed"):
        simple_full_well(det, **kw)
        once = np.array(det.pixel.array, copy=True)
        rec.check(bool(np.array_equal(once, np.minimum(px, fwc))), "full_well_not_minimum", lambda: f"fwc={fwc}: {once.ravel()[:4]} vs {np.minimum(px, fwc).ravel()[:4]}")
        simple_full_well(det, **kw)
        rec.check(bool(np.array_equal(det.pixel.array, once)), "full_well_not_idempotent", "")


# ------------------------------------------------------------------ IPC
@st.composite
def ipc_cases(draw):
    c = draw(st.one_of(st.sampled_from([0.01, 0.1, 0.2]), st.floats(1e-4, 0.2)))
    d = draw(st.one_of(st.just(0.0), st.floats(0.0, 1.0).map(lambda u, c=c: u * min(c, 0.25 - c) * 0.999)))
    a = draw(st.one_of(st.just(0.0), st.floats(-1.0, 1.0).map(lambda u, c=c: u * c * 0.999)))
    fr = draw(frames())
    fr["rows"], fr["cols"] = max(fr["rows"], 3), max(fr["cols"], 3)
    return {"pixel": fr, "coupling": c, "diagonal": d, "aniso": a}


def body_ipc(case, rec):
    from pyxel.models.charge_collection import simple_ipc
    from pyxel.models.charge_collection.inter_pixel_capacitance import ipc_kernel

    c, d, a = case["coupling"], case["diagonal"], case["aniso"]
    rec.cls("model:simple_ipc")
    f = case["pixel"]
    px = make_frame(f)
    rec.nt(bool(px.any()) and (d != 0.0 or a != 0.0))
    with rec.must_not_raise("model_failed"):
        k = ipc_kernel(coupling=c, diagonal_coupling=d, anisotropic_coupling=a)
        rec.check(abs(float(k.sum()) - 1.0) <= 1e-12, "ipc_weights_do_not_sum_to_one", f"sum {k.sum()!r} for c={c} d={d} a={a}")
        rec.check(abs(float(k[1, 1]) - (1.0 - 4.0 * (c + d))) <= 1e-15, "ipc_centre_weight", f"{k[1, 1]!r}")
        rec.check(bool(np.all(k >= 0)), "ipc_negative_weight", f"{k}")
        det = _det("CMOS", f)
        det.empty()
        level = max(float(f["level"]), 1.0)
        det.pixel.array = np.full((f["rows"], f["cols"]), level)
        simple_ipc(det, coupling=c, diagonal_coupling=d, anisotropic_coupling=a)
        out = det.pixel.array
        rec.check(bool(np.allclose(out, level, rtol=1e-9, atol=0.0)), "ipc_changes_uniform_frame", lambda: f"level {level}: {out.ravel()[:4]}")
        # impulse response in the interior equals the kernel (on a frame large enough to be away from the fill value)
        n = 7
        det2 = build_detector(simple_spec("CMOS", row=n, col=n))
        det2.empty()
        imp = np.zeros((n, n))
        imp[3, 3] = 1000.0
        det2.pixel.array = imp
        simple_ipc(det2, coupling=c, diagonal_coupling=d, anisotropic_coupling=a)
        # edge filling uses the frame mean: remove its contribution (mean * (1 - sum of in-frame weights) = 0 in the interior)
        resp = det2.pixel.array[2:5, 2:5] / 1000.0
        rec.check(bool(np.allclose(resp, k, rtol=0, atol=1e-9)), "ipc_impulse_response", lambda: f"{resp} vs kernel {k}")


# ------------------------------------------------------------------ CDM
@st.composite
def cdm_cases(draw):
    n = draw(st.integers(1, 5))
    regime = draw(st.sampled_from(["nominal", "nominal", "heavy_damage"]))
    direction = draw(st.sampled_from(["parallel", "serial"]))
    if regime == "heavy_damage":
        # faint packets, many transfers away from the output node of a heavily damaged device: of the order of one trap per pixel and species
        # (density x electron-cloud volume) and capture cross-sections large enough that every species alone would take most of a packet
        px = draw(frames(max_dim=5, hi=60.0))
        px["rows" if direction == "parallel" else "cols"] = draw(st.integers(40, 120))
        px["kind"] = draw(st.sampled_from(["uniform", "random", "hot", "hot_far", "hot_far", "hot_far"]))  # a compact source in an empty frame: empty traps ahead of it
        vg = draw(st.one_of(st.just(1.62e-10), st.floats(1e-10, 1e-9)))
        nt_list = [draw(st.one_of(st.floats(0.5, 10.0), st.floats(10.0, 300.0), st.floats(10.0, 300.0))) / vg for _ in range(n)]
        sigma_list = [draw(st.one_of(st.just(1e-10), st.floats(1e-12, 1e-9))) for _ in range(n)]
        fwc, t = draw(st.sampled_from([1e5, 1e4, 2e5])), draw(st.one_of(st.just(1e-3), st.floats(1e-4, 1e-2), st.floats(1e-3, 1e-2)))
        beta = draw(st.one_of(st.sampled_from([0.3, 0.37]), st.floats(0.1, 0.6)))
        tr_list = [draw(st.one_of(st.floats(1.0, 30.0).map(lambda k, t=t: k * t), st.floats(1e-6, 10.0))) for _ in range(n)]  # mostly released again within the read-out
    else:
        px = draw(frames(hi=2e5))
        vg = draw(st.one_of(st.sampled_from([1.62e-10, 1.0]), st.floats(1e-12, 1.0)))
        nt_list = draw(st.lists(st.one_of(st.just(0.0), st.floats(0.0, 200.0)), min_size=n, max_size=n))
        sigma_list = draw(st.lists(st.one_of(st.just(0.0), st.floats(1e-20, 1e-12)), min_size=n, max_size=n))
        fwc, t = draw(st.one_of(st.sampled_from([1e5, 1e7, 1.0]), st.floats(1.0, 1e7))), draw(st.one_of(st.sampled_from([9.4722e-4, 10.0]), st.floats(1e-6, 10.0)))
        beta = draw(st.one_of(st.sampled_from([0.0, 1.0, 0.3, 0.37]), st.floats(0.0, 1.0)))
        tr_list = draw(st.lists(st.floats(1e-6, 10.0), min_size=n, max_size=n))
    return {"pixel": px, "regime": regime, "direction": direction, "beta": beta,
            "tr": tr_list,
            "nt": nt_list, "sigma": sigma_list, "fwc": fwc, "vg": vg, "t": t,
            "inject": draw(st.booleans()), "steps": draw(st.integers(1, 3)), "temperature": draw(st.sampled_from([100.0, 150.0, 300.0]))}


def body_cdm(case, rec):
    from pyxel.models.charge_transfer import cdm

    f = case["pixel"]
    spec = simple_spec("CCD", row=f["rows"], col=f["cols"])
    spec["environment"]["temperature"] = case["temperature"]
    det = build_detector(spec)
    det.empty()
    px = make_frame(f, fwc=case["fwc"])
    det.pixel.array = px.copy()
    rec.cls("model:cdm", f"cdm:{case['direction']}", f"species:{len(case['tr'])}", f"cdm:regime:{case.get('regime', 'nominal')}")
    rec.nt(bool(px.any()) and (len(case["tr"]) >= 2 or case["steps"] >= 2 or f["kind"] == "saturated"))
    total_in = float(px.sum())
    with rec.must_not_raise("model_failed"):
        for step in range(case["steps"]):
            before = float(det.pixel.array.sum())
            cdm(det, direction=case["direction"], beta=case["beta"], trap_release_times=case["tr"], trap_densities=case["nt"],
                sigma=case["sigma"], full_well_capacity=case["fwc"], max_electron_volume=case["vg"], transfer_period=case["t"],
                charge_injection=case["inject"])
            out = det.pixel.array
            if not rec.check(bool(np.all(np.isfinite(out))), "cdm_not_finite", f"step {step}: {out.ravel()[:4]}"):
                return
            rec.check(bool(np.all(out >= 0.0)), "cdm_negative_pixel", lambda: f"step {step}: min {out.min()}")
            rec.check(float(out.sum()) <= before * (1 + 1e-12) + 1e-9, "cdm_creates_charge", lambda: f"step {step}: sum in {before!r} out {float(out.sum())!r}")
    rec.check(float(det.pixel.array.sum()) <= total_in * (1 + 1e-12) + 1e-9, "cdm_creates_charge", "over all steps")


# ------------------------------------------------------------------ persistence
@st.composite
def persistence_cases(draw):
    n = draw(st.integers(1, 5))
    raw = draw(st.lists(st.floats(0.0, 1.0), min_size=n, max_size=n))
    scale = draw(st.sampled_from([1.0, 0.5, 0.1, 0.01]))
    tot = sum(raw) or 1.0
    dens = [r / tot * scale for r in raw]
    steps = draw(st.integers(1, 4))
    return {"pixel": draw(frames(hi=2e5)), "which": draw(st.sampled_from(["simple", "simple", "full"])),
            "tau": draw(st.lists(st.one_of(st.sampled_from([1.0, 10.0, 100.0, 1000.0, 10000.0]), st.floats(0.05, 1e4)), min_size=n, max_size=n, unique=True)),
            "dens": dens, "caps": draw(st.one_of(st.none(), st.lists(st.one_of(st.sampled_from([0.0, 10.0, 1000.0]), st.floats(0.0, 1e5)), min_size=n, max_size=n))),
            "dts": draw(st.lists(st.one_of(st.sampled_from([1.0, 0.1, 100.0]), st.floats(1e-3, 1e4)), min_size=steps, max_size=steps)),
            "refill": draw(st.lists(st.sampled_from(["keep", "zero", "new"]), min_size=steps, max_size=steps)),
            "map_seed": draw(st.integers(0, 10**6)), "map_scale": draw(st.sampled_from([1.0, 0.3, 0.0]))}


def body_persistence(case, rec):
    from pyxel.models.charge_collection import persistence, simple_persistence

    f = case["pixel"]
    det = _det("CMOS", f)
    det.empty()
    rows, cols = f["rows"], f["cols"]
    px = make_frame(f)
    det.pixel.array = px.copy()
    n = len(case["tau"])
    rec.cls(f"model:persistence_{case['which']}", f"species:{n}", "caps" if case["caps"] is not None else "nocaps")
    rec.nt(bool(px.any()) and (n >= 2 or len(case["dts"]) >= 2 or f["kind"] == "saturated"))
    rng = np.random.RandomState(case["map_seed"])
    if case["which"] == "full":
        dmap = rng.uniform(0.0, 1.0, size=(rows, cols)) * case["map_scale"]
        np.save(rec.tmp / "dens.npy", dmap)
        cap_file = None
        if case["caps"] is not None:
            np.save(rec.tmp / "caps.npy", rng.uniform(0.0, max(case["caps"][0], 1.0), size=(rows, cols)))
            cap_file = str(rec.tmp / "caps.npy")
        props = [d for d in case["dens"]]
    with rec.must_not_raise("model_failed"):
        for step, dt in enumerate(case["dts"]):
            _clock(det, dt)
            if step and case["refill"][step] == "zero":
                det.pixel.array = np.zeros((rows, cols))
            elif step and case["refill"][step] == "new":
                det.pixel.array = make_frame(dict(f, seed=f["seed"] + step, kind="random"))
            p_in = np.array(det.pixel.array, copy=True)
            t_in = np.array(det.persistence.trapped_charge_array, copy=True).sum(axis=0) if det.has_persistence() else np.zeros((rows, cols))
            if case["which"] == "simple":
                simple_persistence(det, trap_time_constants=case["tau"], trap_densities=case["dens"], trap_capacities=case["caps"])
            else:
                persistence(det, trap_time_constants=case["tau"], trap_proportions=props, trap_densities_filename=str(rec.tmp / "dens.npy"),
                            trap_capacities_filename=cap_file)
            p_out = det.pixel.array
            trapped = det.persistence.trapped_charge_array
            t_out = trapped.sum(axis=0)
            scale = np.maximum(np.abs(p_in) + np.abs(t_in), 1.0)
            err = np.abs((p_out + t_out) - (p_in + t_in)) / scale
            rec.check(bool(np.all(err <= 1e-9)), "persistence_charge_not_conserved",
                      lambda: f"step {step} dt={dt} species={n}: pixel+trapped before {(p_in + t_in).ravel()[:3]} after {(p_out + t_out).ravel()[:3]} (max rel err {err.max():.3e})")
            rec.check(bool(np.all(trapped >= -1e-9 * np.maximum(scale, 1.0))), "persistence_negative_trapped_charge", lambda: f"step {step}: min {trapped.min()}")
            rec.check(bool(np.all(np.isfinite(p_out))), "persistence_not_finite", "")


PARTS = {"collection": body_collection, "conversion": body_conversion, "conversion_qe_map": body_qe_map, "fullwell": body_fullwell, "ipc": body_ipc,
         "cdm": body_cdm, "persistence": body_persistence}


def plan(tier):
    q = tier == "quick"
    return [
        Part(name="collection", kind="gen", strategy=collection_cases, examples=15 if q else 300),
        Part(name="conversion", kind="gen", strategy=conversion_cases, examples=60 if q else 1000),
        Part(name="conversion_qe_map", kind="gen", strategy=qe_map_cases, examples=25 if q else 400),
        Part(name="fullwell", kind="gen", strategy=fullwell_cases, examples=40 if q else 600),
        Part(name="ipc", kind="gen", strategy=ipc_cases, examples=30 if q else 400),
        Part(name="cdm", kind="gen", strategy=cdm_cases, examples=100 if q else 1500),
        Part(name="persistence", kind="gen", strategy=persistence_cases, examples=80 if q else 1500),
    ]
