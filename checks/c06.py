"""C06 — parameter runs are isolated from each other and from the caller's objects."""

from __future__ import annotations

import copy

import numpy as np
from hypothesis import strategies as st

from vlib import pyx, snapshot
from vlib.gen_detector import simple_spec
from vlib.gen_paramspace import KEYS, echo_pipeline, full_state, observation_mode_spec, reference_runs, select_run, spaces
from vlib.runner import Part

PROPERTY = "C06"
LEVEL = "exploration"
RULE = (
    "Hypothesis generates small parameter spaces (as C05: product / sequential / custom, sequential and dask path) over a "
    "pipeline that contains a state-keeping probe (detector memory), a probe that mutates its own list argument in place, "
    "the library's simple_persistence model (trapped charge kept on the detector) and two echo probes, with 1..3 readout "
    "steps, destructive or not; optionally one run of the sweep is made to fail. Oracle (i): every run's pixel / signal / "
    "image entry (selected by label) equals a standalone exposure the harness builds itself from the JSON spec with only "
    "that run's values substituted; (ii) a deep structural snapshot of the caller's detector, pipeline, readout and mode is "
    "identical before and after run_mode (also when it raised). Part 'calibration': real calibration runs (sade / sga, 1..2 islands, 1..2 target files with per-target input arguments, 1..3 readouts) over the same state-keeping pipeline with a fitness function that records the simulated data of every candidate: a sample of the evaluated candidates (first, last, evenly spaced) and the champions' returned data must equal the standalone exposure with the values the probe received, and the caller's objects must be unchanged. Non-trivial: >=2 runs "
    "and a state-keeping or argument-mutating model in the pipeline (always present); distinct by canonical JSON."
)
ASSUMPTIONS = ["the standalone exposure is built from the JSON spec, never from the objects handed to pyxel",
               "known finding K1 class (sequential + dask + >=2 parameters) is excluded as in C05"]
SHARDS = {"quick": 8, "thorough": 16}


@st.composite
def cases(draw):
    space = draw(spaces(max_params=2, max_runs=8))
    if space["mode"] != "custom" and draw(st.sampled_from([True, False, False])):
        # make sure a good share of the cases sweeps the temperature, so that one run can be made to fail
        space["params"] = [p for p in space["params"] if p["key"] != KEYS[5]][:1]
        space["params"].append({"key": KEYS[5], "values": draw(st.lists(st.sampled_from([50.0, 150.0, 200.0, 250.0]), min_size=2, max_size=3, unique=True)),
                                "enabled": True, "render": "list"})
        if space["mode"] == "sequential" and sum(p["enabled"] for p in space["params"]) >= 2:
            space["dask"] = False
    nd_arg = draw(st.booleans())
    if nd_arg and space["mode"] == "sequential" and not space["dask"] and draw(st.booleans()):
        # the ndarray-valued argument is itself one of the swept keys: in the runs that vary another key it keeps its configured (ndarray) value
        space["params"] = space["params"][:2] + [{"key": ARR_KEY, "values": [[1.0, 1.0, 1.0], [3.0, 3.0, 3.0]], "enabled": True, "render": "list"}]
        if not any(p["enabled"] for p in space["params"][:-1]):
            space["params"][0]["enabled"] = True
    case = {"space": space, "steps": draw(st.integers(1, 3)), "non_destructive": draw(st.booleans()),
            "bump": draw(st.sampled_from([1.0, 2.5])), "fail": None, "pre_state": draw(st.booleans()), "ndarray_arg": nd_arg}
    temp_param = next((p for p in space["params"] if p["enabled"] and p["key"] == KEYS[5] and space["mode"] != "custom"), None)
    if temp_param and len(temp_param["values"]) >= 2 and draw(st.booleans()):
        case["fail"] = temp_param["values"][draw(st.integers(0, len(temp_param["values"]) - 1))]
    return case


def _pipeline(case, fail=None):
    P = "vprobes.models."
    extra = {"charge_collection": [
        {"name": "mem", "func": P + "memory", "enabled": True, "arguments": {"bump": case["bump"], "tag": "mem"}},
        {"name": "mut", "func": P + "arg_mutator", "enabled": True, "arguments": {"lst": [1, 2], "tag": "mut"}},
        {"name": "pers", "func": "pyxel.models.charge_collection.simple_persistence", "enabled": True,
         "arguments": {"trap_time_constants": [1.0, 10.0], "trap_densities": [0.1, 0.2]}},
    ]}
    if case.get("ndarray_arg"):
        # an ndarray-valued argument that its model modifies in place (turned into an ndarray after the build: YAML / JSON cannot carry one)
        extra["charge_collection"].append({"name": "amut", "func": P + "array_arg_mutator", "enabled": True, "arguments": {"arr": [1.0, 2.0, 4.0], "tag": "amut"}})
    if fail is not None:
        extra["photon_collection"] = [{"name": "boom", "func": P + "fault_if", "enabled": True, "arguments": {"key": "temperature", "bad": fail}}]
    return echo_pipeline(extra)


ARR_KEY = "pipeline.charge_collection.amut.arguments.arr"


def _ndarray_args(cfg):
    grp = cfg.pipeline.charge_collection
    for m in (grp.models if grp is not None else []):
        if m.name == "amut":
            m.arguments["arr"] = np.array(m.arguments["arr"], dtype=float)
    return cfg


def _times(case):
    return [float(i + 1) for i in range(case["steps"])]


def _standalone(case, run):
    """A fresh exposure built by the harness from the JSON spec with this run's values substituted."""
    s = full_state(run)
    pipe = _pipeline(case)
    e1 = pipe["groups"]["charge_collection"][0]["arguments"]
    e1["level"], e1["vec"], e1["other"] = s[KEYS[0]], list(s[KEYS[1]]), s[KEYS[2]]
    pipe["groups"]["charge_measurement"][0]["arguments"]["level"] = s[KEYS[3]]
    if ARR_KEY in run:
        next(m for m in pipe["groups"]["charge_collection"] if m["name"] == "amut")["arguments"]["arr"] = [float(x) for x in run[ARR_KEY]]
    det = simple_spec("CMOS", row=2, col=3, quantum_efficiency=s[KEYS[4]])
    det["environment"]["temperature"] = s[KEYS[5]]
    spec = {"detector": det, "pipeline": pipe, "mode": {"kind": "exposure"}, "readout": {"times": _times(case)},
            "non_destructive": case["non_destructive"]}
    cfg = pyx.build(spec)
    if ARR_KEY in run:  # a swept value reaches the model as the tuple pyxel passes on, the configured value is an ndarray
        next(m for m in cfg.pipeline.charge_collection.models if m.name == "amut").arguments["arr"] = tuple(float(x) for x in run[ARR_KEY])
    else:
        _ndarray_args(cfg)
    if case["pre_state"]:  # the user's configuration includes whatever state their detector object carried
        cfg.detector._memory["probe_n"] = 40
        cfg.detector.pixel.array = np.full((2, 3), 9.0)
        cfg.detector.signal.array = np.full((2, 3), 1.25)
    res = pyx.run(cfg, with_inherited_coords=True)
    return {b: np.asarray(res[f"/bucket/{b}"].values) for b in ("pixel", "signal", "image")}


def body(case, rec):
    from vprobes import models as P

    P.reset()
    space = case["space"]
    rec.cls(f"mode:{space['mode']}", "dask" if space["dask"] else "seq", f"steps:{case['steps']}", "with_failing_run" if case["fail"] is not None else "no_failure",
            "nd" if case["non_destructive"] else "destructive")
    ref = reference_runs(space)
    rec.nt(len(ref) >= 2)
    det = simple_spec("CMOS", row=2, col=3)
    spec = {"detector": det, "pipeline": _pipeline(case, fail=case["fail"]), "readout": {"times": _times(case)},
            "non_destructive": case["non_destructive"], "mode": observation_mode_spec(space, rec.tmp)}
    cfg = None
    with rec.must_not_raise("valid_space_refused"):
        cfg = _ndarray_args(pyx.build(spec))
    if cfg is None:
        return
    if case.get("ndarray_arg"):
        rec.cls("ndarray_argument")
    if case["pre_state"]:
        # the caller's detector already carries state of its own (memory, trapped charge, bucket contents)
        cfg.detector._memory["probe_n"] = 40
        cfg.detector.pixel.array = np.full((2, 3), 9.0)
        cfg.detector.signal.array = np.full((2, 3), 1.25)
    before = snapshot.snap_all(cfg)
    res, raised = None, None
    try:
        res = pyx.run(cfg, with_inherited_coords=True, compute=False)
        if space["dask"] and case["fail"] is None:
            res = res.compute()
    except Exception as exc:  # noqa: BLE001
        raised = exc
    after = snapshot.snap_all(cfg)
    d = snapshot.diff(before, after)
    rec.check(not d, "callers_objects_modified", f"{'after a failing call' if raised else 'after the call'}: {d[:4]}")
    if case["fail"] is None:
        if not rec.check(raised is None, "valid_space_refused", f"{raised!r}"[:300]):
            return
    else:
        if not space["dask"]:
            rec.check(raised is not None, "failing_run_did_not_fail_the_call", "")
            return
        if raised is not None:  # the metadata run may already hit the failing element
            return
    # ---- (i) every run equals its standalone exposure
    for n, run in enumerate(ref):
        fails = case["fail"] is not None and float(full_state(run)[KEYS[5]]) == float(case["fail"])
        sels = {}
        try:
            for b in ("pixel", "signal", "image"):
                sels[b] = select_run(res[f"/bucket/{b}"], space, run, n)
        except (LookupError, KeyError) as exc:
            rec.fail("label_not_selectable", f"run {n} {run}: {exc!r}"[:300])
            continue
        if fails:
            exc = rec.raises("failing_run_yields_data", lambda: np.asarray(sels["pixel"].compute().values), detail=f"run {n}")
            continue
        try:
            got = {b: np.asarray(sels[b].compute().values if space["dask"] else sels[b].values) for b in sels}
        except Exception as exc:  # noqa: BLE001
            rec.fail("run_depends_on_failing_neighbour", f"run {n} {run} cannot be computed: {exc!r}"[:300])
            continue
        P_state = None
        with rec.must_not_raise("standalone_exposure_failed"):
            P_state = _standalone(case, run)
        if P_state is None:
            continue
        for b in ("pixel", "signal", "image"):
            a, w = got[b].astype(float), P_state[b].astype(float)
            ok = a.shape == w.shape and bool(np.allclose(a, w, rtol=1e-12, atol=1e-9, equal_nan=True))
            rec.check(ok, f"run_differs_from_standalone_exposure:{b}",
                      lambda a=a, w=w, b=b: f"run {n} {run}: {b} {a.ravel()[:4]} vs standalone {w.ravel()[:4]} (shapes {a.shape}/{w.shape})")


# ------------------------------------------------------------------------------------------------ calibration
@st.composite
def cal_cases(draw):
    return {"steps": draw(st.integers(1, 3)), "non_destructive": draw(st.booleans()), "bump": draw(st.sampled_from([1.0, 2.5])),
            "pre_state": draw(st.booleans()), "algo": draw(st.sampled_from(["sade", "sga"])), "islands": draw(st.integers(1, 2)),
            "evolutions": draw(st.integers(1, 2)), "pygmo_seed": draw(st.integers(0, 100000)), "offsets": draw(st.sampled_from([[0.0], [0.0, 7.0]])),
            "log_p0": draw(st.booleans())}


def _cal_pipeline(case, values=None):
    P = "vprobes.models."
    args = {"tag": "cal", "p0": 1.0, "p1": [1.0, 1.0], "offset": 0.0}
    args.update(values or {})
    return {"groups": {"charge_collection": [
        {"name": "cal", "func": P + "cal_probe", "enabled": True, "arguments": args},
        {"name": "mem", "func": P + "memory", "enabled": True, "arguments": {"bump": case["bump"], "tag": "mem"}},
        {"name": "mut", "func": P + "arg_mutator", "enabled": True, "arguments": {"lst": [1, 2], "tag": "mut"}},
        {"name": "pers", "func": "pyxel.models.charge_collection.simple_persistence", "enabled": True,
         "arguments": {"trap_time_constants": [1.0, 10.0], "trap_densities": [0.1, 0.2]}},
    ]}, "yaml_perm": 0}


def _pre_state(cfg):
    cfg.detector._memory["probe_n"] = 40
    cfg.detector.pixel.array = np.full((2, 3), 9.0)
    cfg.detector.signal.array = np.full((2, 3), 1.25)


def _cal_standalone(case, values):
    spec = {"detector": simple_spec("CMOS", row=2, col=3), "pipeline": _cal_pipeline(case, values), "mode": {"kind": "exposure"},
            "readout": {"times": _times(case)}, "non_destructive": case["non_destructive"]}
    cfg = pyx.build(spec)
    if case["pre_state"]:
        _pre_state(cfg)
    res = pyx.run(cfg, with_inherited_coords=True)
    return np.asarray(res["/bucket/pixel"].values, dtype=float)  # (time, y, x)


def body_cal(case, rec):
    from vprobes import models as P

    P.reset()
    steps, n_t = case["steps"], len(case["offsets"])
    rec.cls(f"cal:steps:{steps}", f"cal:islands:{case['islands']}", f"cal:targets:{n_t}", "cal:pre_state" if case["pre_state"] else "cal:fresh_detector",
            "cal:nd" if case["non_destructive"] else "cal:destructive")
    rec.nt(True)
    paths = []
    for k in range(n_t):
        np.save(rec.tmp / f"t{k}.npy", np.full((steps, 2, 3), 50.0 + k))
        paths.append(str(rec.tmp / f"t{k}.npy"))
    A = "pipeline.charge_collection.cal.arguments."
    mode = {"kind": "calibration", "target_data_path": paths, "fitness_function": {"func": "vprobes.models.fitness_log"},
            "algorithm": {"type": case["algo"], "generations": 2, "population_size": 8},
            "parameters": [{"key": A + "p0", "values": "_", "logarithmic": case["log_p0"], "boundaries": [0.1, 10.0]},
                           {"key": A + "p1", "values": ["_", "_"], "logarithmic": False, "boundaries": [[-2.0, 2.0], [0.0, 5.0]]}],
            "result_type": "pixel", "result_input_arguments": [{"key": A + "offset", "values": list(case["offsets"])}],
            "target_fit_range": [0, steps, 0, 2, 0, 3], "result_fit_range": [0, steps, 0, 2, 0, 3],
            "pygmo_seed": case["pygmo_seed"], "num_islands": case["islands"], "num_evolutions": case["evolutions"]}
    spec = {"detector": simple_spec("CMOS", row=2, col=3), "pipeline": _cal_pipeline(case), "mode": mode, "readout": {"times": _times(case)},
            "non_destructive": case["non_destructive"]}
    cfg = None
    with rec.must_not_raise("valid_calibration_refused"):
        cfg = pyx.build(spec)
    if cfg is None:
        return
    if case["pre_state"]:
        _pre_state(cfg)
    before = snapshot.snap_all(cfg)
    res = None
    with rec.must_not_raise("valid_calibration_refused"):
        res = pyx.run(cfg, with_inherited_coords=True)
    d = snapshot.diff(before, snapshot.snap_all(cfg))
    rec.check(not d, "callers_objects_modified", f"after a calibration: {d[:4]}")
    if res is None:
        return
    # ---- every evaluated candidate: `steps` probe records followed by the fitness record of that processor
    # (islands evolve in threads of their own: the records are grouped per thread)
    log, evals, cur = list(P.CAL_LOG), [], {}
    for e in log:
        if e["kind"] == "cal":
            cur.setdefault(e["thread"], []).append(e)
        elif e["kind"] == "fit":
            evals.append((cur.pop(e["thread"], []), e["sim"]))
    if not rec.check(len(evals) >= 8 * n_t, "too_few_evaluations_logged", f"{len(evals)} evaluations in the log"):
        return
    cache = {}

    def standalone(values):
        key = repr(sorted(values.items()))
        if key not in cache:
            cache[key] = _cal_standalone(case, values)
        return cache[key]

    pick = sorted(set(list(range(min(6, len(evals)))) + list(range(max(0, len(evals) - 6), len(evals))) + list(range(0, len(evals), max(1, len(evals) // 6)))))
    for i in pick:
        recs, sim = evals[i]
        if not rec.check(len(recs) == steps and [r["step"] for r in recs] == list(range(steps)), "candidate_not_run_as_one_exposure",
                         f"evaluation #{i}: probe saw steps {[r['step'] for r in recs]} for {steps} readouts"):
            continue
        rec.sub({"evaluation": i}, True)
        values = {"p0": recs[0]["values"]["p0"], "p1": recs[0]["values"]["p1"], "offset": recs[0]["offset"]}
        want = None
        with rec.must_not_raise("standalone_exposure_failed"):
            want = standalone(values)
        if want is None:
            continue
        ok = sim.shape == want.shape and bool(np.allclose(sim, want, rtol=1e-12, atol=1e-9))
        rec.check(ok, "candidate_differs_from_standalone_exposure",
                  lambda i=i, sim=sim, want=want, values=values: f"evaluation #{i} of {len(evals)} {values}: simulated {sim.ravel()[:4]} vs standalone {want.ravel()[:4]} (shapes {sim.shape}/{want.shape})")
    # ---- the returned data of the champions
    par = np.asarray(res["/champion/parameters"].values, dtype=float)  # (island, evolution, param)
    got = None
    with rec.must_not_raise("simulated_data_not_computable"):
        got = np.asarray(res["/simulated/pixel"].compute().values, dtype=float)  # (island, processor, time, y, x)
    if got is None:
        return
    for isl in range(par.shape[0]):
        for k in range(n_t):
            p = par[isl, -1]
            want = None
            with rec.must_not_raise("standalone_exposure_failed"):
                want = standalone({"p0": float(p[0]), "p1": [float(p[1]), float(p[2])], "offset": float(case["offsets"][k])})
            if want is None:
                continue
            g = got[isl, k]
            ok = g.shape == want.shape and bool(np.allclose(g, want, rtol=1e-12, atol=1e-9))
            rec.check(ok, "champion_result_differs_from_standalone_exposure", f"island {isl} target {k}: {g.ravel()[:4]} vs standalone {want.ravel()[:4]} (shapes {g.shape}/{want.shape})")


# ------------------------------------------------------------------------------------------------ sweeping the readout time
RO_KEY = "observation.readout.times"


@st.composite
def readout_cases(draw):
    """A sweep over 'observation.readout.times' (supported since pyxel 2.6.1: every run is read out once, at its own time)."""
    ts = draw(st.lists(st.sampled_from([0.5, 1.0, 2.0, 3.0, 5.0, 7.5]), min_size=1, max_size=4, unique=True))
    other = draw(st.sampled_from([None, None, KEYS[0], KEYS[5]]))
    case = {"times": ts, "other": other, "other_values": None, "dask": draw(st.sampled_from([True, True, True, False])),
            "user_times": draw(st.sampled_from([[3.0, 4.0], [1.0], [0.25, 0.5, 6.0]])), "non_destructive": draw(st.booleans()),
            "bump": draw(st.sampled_from([1.0, 2.5])), "pre_state": draw(st.booleans()), "readout_first": draw(st.booleans()),
            "start_time": draw(st.sampled_from([0.0, 0.0, 0.125, -1.0]))}  # (below every generated readout time)
    if other == KEYS[0]:
        case["other_values"] = draw(st.lists(st.integers(1, 40), min_size=1, max_size=3, unique=True))
    elif other == KEYS[5]:
        case["other_values"] = draw(st.lists(st.sampled_from([50.0, 150.0, 250.0]), min_size=1, max_size=3, unique=True))
    return case


def _ro_standalone(case, t, other_value):
    run = {} if case["other"] is None else {case["other"]: other_value}
    c2 = dict(case, steps=1)
    s = full_state(run)
    pipe = _pipeline(c2)
    pipe["groups"]["charge_collection"][0]["arguments"]["level"] = s[KEYS[0]]
    det = simple_spec("CMOS", row=2, col=3)
    det["environment"]["temperature"] = s[KEYS[5]]
    spec = {"detector": det, "pipeline": pipe, "mode": {"kind": "exposure"}, "readout": {"times": [float(t)], "start_time": case.get("start_time", 0.0)}, "non_destructive": case["non_destructive"]}
    cfg = pyx.build(spec)
    if case["pre_state"]:
        _pre_state(cfg)
    res = pyx.run(cfg, with_inherited_coords=True)
    return {b: np.asarray(res[f"/bucket/{b}"].values)[0] for b in ("pixel", "signal", "image")}


def body_readout(case, rec):
    from vprobes import models as P

    P.reset()
    rec.cls("ro:dask" if case["dask"] else "ro:seq", "ro:start_time_nonzero" if case.get("start_time") else "ro:start_time_0", f"ro:runs:{len(case['times'])}", "ro:with_other_parameter" if case["other"] else "ro:alone",
            f"ro:user_readouts:{len(case['user_times'])}")
    rec.nt(len(case["times"]) >= 2)
    params = [{"key": RO_KEY, "values": list(case["times"]), "enabled": True}]
    if case["other"]:
        o = {"key": case["other"], "values": list(case["other_values"]), "enabled": True}
        params = params + [o] if case["readout_first"] else [o] + params
    spec = {"detector": simple_spec("CMOS", row=2, col=3), "pipeline": _pipeline(dict(case, steps=1)), "readout": {"times": list(case["user_times"]), "start_time": case.get("start_time", 0.0)},
            "non_destructive": case["non_destructive"],
            "mode": {"kind": "observation", "mode": "product", "with_dask": case["dask"], "parameters": params}}
    cfg = None
    with rec.must_not_raise("valid_space_refused"):
        cfg = pyx.build(spec)
    if cfg is None:
        return
    if case["pre_state"]:
        _pre_state(cfg)
    before = snapshot.snap_all(cfg)
    res, raised = None, None
    try:
        res = pyx.run(cfg, with_inherited_coords=True, compute=True)
    except Exception as exc:  # noqa: BLE001
        raised = exc
    d = snapshot.diff(before, snapshot.snap_all(cfg))
    rec.check(not d, "callers_objects_modified", f"after a sweep of the readout time: {d[:4]}")
    if raised is not None:
        # the statement allows nothing but isolation and equality; a refusal of this key is not one of the listed outcomes, but it is no silent
        # wrong result either: report it under its own signature
        rec.fail(f"readout_sweep_refused:{type(raised).__name__}", f"{raised!r}"[:300])
        return
    short = {KEYS[0]: "level", KEYS[5]: "temperature"}
    for t in case["times"]:
        for ov in (case["other_values"] or [None]):
            want = None
            with rec.must_not_raise("standalone_exposure_failed"):
                want = _ro_standalone(case, t, ov)
            if want is None:
                continue
            for b in ("pixel", "signal", "image"):
                da = res[f"/bucket/{b}"]
                try:
                    if "readout_time" in da.dims:  # sequential layout: (readout_time, ..., time)
                        sel = da.sel(readout_time=t)
                        if case["other"]:
                            sel = sel.sel({short[case["other"]]: ov})
                        got_t = [float(x) for x in np.atleast_1d(sel["time"].values)]
                        rec.check(got_t == [float(t)], "run_differs_from_standalone_exposure:readout_times",
                                  f"the run labelled readout_time={t} was read out at {got_t}")
                        got = np.asarray(sel.values)[0] if sel.ndim == 3 else np.asarray(sel.values)
                    else:
                        sel = da.sel(time=t)
                        if case["other"]:
                            sel = sel.sel({short[case["other"]]: ov})
                        got = np.asarray(sel.values)
                except (KeyError, LookupError, ValueError) as exc:
                    rec.fail("label_not_selectable", f"run time={t} {case['other']}={ov}: {exc!r}"[:300])
                    continue
                a, w = np.asarray(got, dtype=float), want[b].astype(float)
                ok = a.shape == w.shape and bool(np.allclose(a, w, rtol=1e-12, atol=1e-9, equal_nan=True))
                rec.check(ok, f"run_differs_from_standalone_exposure:{b}",
                          lambda a=a, w=w, b=b, t=t, ov=ov: f"run readout time {t}, {case['other']}={ov}: {b} {a.ravel()[:4]} vs standalone {w.ravel()[:4]} (shapes {a.shape}/{w.shape})")


def known_key(part, clause, case, detail):
    if part == "readout_sweep" and not case.get("dask") and clause.startswith("run_differs_from_standalone_exposure"):
        return "K6-readout-time-sweep-ignored-without-dask"
    return None


PARTS = {"observation": body, "calibration": body_cal, "readout_sweep": body_readout}


def plan(tier):
    return [Part(name="observation", kind="gen", strategy=cases, examples=60 if tier == "quick" else 400),
            Part(name="calibration", kind="gen", strategy=cal_cases, examples=6 if tier == "quick" else 60),
            Part(name="readout_sweep", kind="gen", strategy=readout_cases, examples=12 if tier == "quick" else 100)]
