"""C06 — parameter runs are isolated from each other and from the caller's objects."""

from __future__ import annotations

import copy

import numpy as np
from hypothesis import strategies as st

from vlib import pyx, snapshot
from vlib.gen_detector import simple_spec
from vlib.gen_paramspace import KEYS, echo_pipeline, full_state, observation_mode_spec, reference_runs, select_run, spaces
from vlib.runner import Part

PROPERTY = "C06"
LEVEL = "exploration"
RULE = (
    "Hypothesis generates small parameter spaces (as C05: product / sequential / custom, sequential and dask path) over a "
    "pipeline that contains a state-keeping probe (detector memory), a probe that mutates its own list argument in place, "
    "the library's simple_persistence model (trapped charge kept on the detector) and two echo probes, with 1..3 readout "
    "steps, destructive or not; optionally one run of the sweep is made to fail. Oracle (i): every run's pixel / signal / "
    "image entry (selected by label) equals a standalone exposure the harness builds itself from the JSON spec with only "
    "that run's values substituted; (ii) a deep structural snapshot of the caller's detector, pipeline, readout and mode is "
    "identical before and after run_mode (also when it raised). Calibration: see part 'calibration'. Non-trivial: >=2 runs "
    "and a state-keeping or argument-mutating model in the pipeline (always present); distinct by canonical JSON."
)
ASSUMPTIONS = ["the standalone exposure is built from the JSON spec, never from the objects handed to pyxel",
               "known finding K1 class (sequential + dask + >=2 parameters) is excluded as in C05"]
SHARDS = {"quick": 8, "thorough": 16}


@st.composite
def cases(draw):
    space = draw(spaces(max_params=2, max_runs=8))
    if space["mode"] != "custom" and draw(st.sampled_from([True, False, False])):
        # make sure a good share of the cases sweeps the temperature, so that one run can be made to fail
        space["params"] = [p for p in space["params"] if p["key"] != KEYS[5]][:1]
        space["params"].append({"key": KEYS[5], "values": draw(st.lists(st.sampled_from([50.0, 150.0, 200.0, 250.0]), min_size=2, max_size=3, unique=True)),
                                "enabled": True, "render": "list"})
        if space["mode"] == "sequential" and sum(p["enabled"] for p in space["params"]) >= 2:
            space["dask"] = False
    case = {"space": space, "steps": draw(st.integers(1, 3)), "non_destructive": draw(st.booleans()),
            "bump": draw(st.sampled_from([1.0, 2.5])), "fail": None, "pre_state": draw(st.booleans())}
    temp_param = next((p for p in space["params"] if p["enabled"] and p["key"] == KEYS[5] and space["mode"] != "custom"), None)
    if temp_param and len(temp_param["values"]) >= 2 and draw(st.booleans()):
        case["fail"] = temp_param["values"][draw(st.integers(0, len(temp_param["values"]) - 1))]
    return case


def _pipeline(case, fail=None):
    P = "vprobes.models."
    extra = {"charge_collection": [
        {"name": "mem", "func": P + "memory", "enabled": True, "arguments": {"bump": case["bump"], "tag": "mem"}},
        {"name": "mut", "func": P + "arg_mutator", "enabled": True, "arguments": {"lst": [1, 2], "tag": "mut"}},
        {"name": "pers", "func": "pyxel.models.charge_collection.simple_persistence", "enabled": True,
         "arguments": {"trap_time_constants": [1.0, 10.0], "trap_densities": [0.1, 0.2]}},
    ]}
    if fail is not None:
        extra["photon_collection"] = [{"name": "boom", "func": P + "fault_if", "enabled": True, "arguments": {"key": "temperature", "bad": fail}}]
    return echo_pipeline(extra)


def _times(case):
    return [float(i + 1) for i in range(case["steps"])]


def _standalone(case, run):
    """A fresh exposure built by the harness from the JSON spec with this run's values substituted."""
    s = full_state(run)
    pipe = _pipeline(case)
    e1 = pipe["groups"]["charge_collection"][0]["arguments"]
    e1["level"], e1["vec"], e1["other"] = s[KEYS[0]], list(s[KEYS[1]]), s[KEYS[2]]
    pipe["groups"]["charge_measurement"][0]["arguments"]["level"] = s[KEYS[3]]
    det = simple_spec("CMOS", row=2, col=3, quantum_efficiency=s[KEYS[4]])
    det["environment"]["temperature"] = s[KEYS[5]]
    spec = {"detector": det, "pipeline": pipe, "mode": {"kind": "exposure"}, "readout": {"times": _times(case)},
            "non_destructive": case["non_destructive"]}
    cfg = pyx.build(spec)
    if case["pre_state"]:  # the user's configuration includes whatever state their detector object carried
        cfg.detector._memory["probe_n"] = 40
        cfg.detector.pixel.array = np.full((2, 3), 9.0)
        cfg.detector.signal.array = np.full((2, 3), 1.25)
    res = pyx.run(cfg, with_inherited_coords=True)
    return {b: np.asarray(res[f"/bucket/{b}"].values) for b in ("pixel", "signal", "image")}


def body(case, rec):
    from vprobes import models as P

    P.reset()
    space = case["space"]
    rec.cls(f"mode:{space['mode']}", "dask" if space["dask"] else "seq", f"steps:{case['steps']}", "with_failing_run" if case["fail"] is not None else "no_failure",
            "nd" if case["non_destructive"] else "destructive")
    ref = reference_runs(space)
    rec.nt(len(ref) >= 2)
    det = simple_spec("CMOS", row=2, col=3)
    spec = {"detector": det, "pipeline": _pipeline(case, fail=case["fail"]), "readout": {"times": _times(case)},
            "non_destructive": case["non_destructive"], "mode": observation_mode_spec(space, rec.tmp)}
    cfg = None
    with rec.must_not_raise("valid_space_refused"):
        cfg = pyx.build(spec)
    if cfg is None:
        return
    if case["pre_state"]:
        # the caller's detector already carries state of its own (memory, trapped charge, bucket contents)
        cfg.detector._memory["probe_n"] = 40
        cfg.detector.pixel.array = np.full((2, 3), 9.0)
        cfg.detector.signal.array = np.full((2, 3), 1.25)
    before = snapshot.snap_all(cfg)
    res, raised = None, None
    try:
        res = pyx.run(cfg, with_inherited_coords=True, compute=False)
        if space["dask"] and case["fail"] is None:
            res = res.compute()
    except Exception as exc:  # noqa: BLE001
        raised = exc
    after = snapshot.snap_all(cfg)
    d = snapshot.diff(before, after)
    rec.check(not d, "callers_objects_modified", f"{'after a failing call' if raised else 'after the call'}: {d[:4]}")
    if case["fail"] is None:
        if not rec.check(raised is None, "valid_space_refused", f"{raised!r}"[:300]):
            return
    else:
        if not space["dask"]:
            rec.check(raised is not None, "failing_run_did_not_fail_the_call", "")
            return
        if raised is not None:  # the metadata run may already hit the failing element
            return
    # ---- (i) every run equals its standalone exposure
    for n, run in enumerate(ref):
        fails = case["fail"] is not None and float(full_state(run)[KEYS[5]]) == float(case["fail"])
        sels = {}
        try:
            for b in ("pixel", "signal", "image"):
                sels[b] = select_run(res[f"/bucket/{b}"], space, run, n)
        except (LookupError, KeyError) as exc:
            rec.fail("label_not_selectable", f"run {n} {run}: {exc!r}"[:300])
            continue
        if fails:
            exc = rec.raises("failing_run_yields_data", lambda: np.asarray(sels["pixel"].compute().values), detail=f"run {n}")
            continue
        try:
            got = {b: np.asarray(sels[b].compute().values if space["dask"] else sels[b].values) for b in sels}
        except Exception as exc:  # noqa: BLE001
            rec.fail("run_depends_on_failing_neighbour", f"run {n} {run} cannot be computed: {exc!r}"[:300])
            continue
        P_state = None
        with rec.must_not_raise("standalone_exposure_failed"):
            P_state = _standalone(case, run)
        if P_state is None:
            continue
        for b in ("pixel", "signal", "image"):
            a, w = got[b].astype(float), P_state[b].astype(float)
            ok = a.shape == w.shape and bool(np.allclose(a, w, rtol=1e-12, atol=1e-9, equal_nan=True))
            rec.check(ok, f"run_differs_from_standalone_exposure:{b}",
                      lambda a=a, w=w, b=b: f"run {n} {run}: {b} {a.ravel()[:4]} vs standalone {w.ravel()[:4]} (shapes {a.shape}/{w.shape})")


PARTS = {"observation": body}


def plan(tier):
    return [Part(name="observation", kind="gen", strategy=cases, examples=60 if tier == "quick" else 400)]
