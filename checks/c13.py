"""C13 — data buckets only ever hold arrays of the detector's shape and unit type.

Model-based testing of operation sequences: every case is a JSON list of operations that
is applied both to a real pyxel container (photon / pixel / signal / image / phase of a
generated detector) and to a tiny reference model (None | ndarray | 3-D array). After every
operation the real container is read back through its public API and compared with the model.
"""

from __future__ import annotations

import numpy as np
from hypothesis import strategies as st

from vlib.gen_detector import build_detector, detector_specs
from vlib.runner import Part

PROPERTY = "C13"
LEVEL = "exploration"
RULE = (
    "Hypothesis generates (detector spec, container kind, list of 1..25 operations) - set / set-3d / update / += / "
    "empty / reads / == with a twin container / assignment through the detector property - with arrays of right and "
    "wrong shape, every numpy dtype class, negative/NaN/inf/huge values. A case is non-trivial when the sequence has a "
    "rejected operation followed by a read, or a += on an empty container, or an == between an empty and a non-empty "
    "container; distinct = distinct canonical JSON of the whole case."
)
ASSUMPTIONS = [
    "numpy's own in-place addition on a copy is the reference for the value after an accepted +=",
    "dtypes that are floating/unsigned but not one of the documented native types (big-endian, longdouble) may be "
    "accepted or rejected; only the invariant afterwards is asserted for them",
    "== between containers whose arrays differ only in dtype, or contain NaN at equal positions, is not asserted "
    "(the statement does not fix it); it must still not raise and be symmetric",
]
SHARDS = {"quick": 8, "thorough": 16}

KINDS = ("photon", "pixel", "signal", "image", "phase")
FLOAT_OK = ("float16", "float32", "float64")
UINT_OK = ("uint8", "uint16", "uint32", "uint64")
ALL_DTYPES = ("bool", "int8", "int16", "int32", "int64", "uint8", "uint16", "uint32", "uint64", "float16", "float32",
              "float64", "longdouble", "complex64", "complex128", "object", ">f8", ">u2", "<f4", "str")
SHAPES = ("ok", "ok", "ok", "T", "row+1", "col-1", "1d", "3d", "0d", "bcast_row", "bcast_col")
SPECIAL = {"nan": np.nan, "inf": np.inf, "-inf": -np.inf}


# ------------------------------------------------------------------ strategies
def _vals():
    tok = st.one_of(
        st.integers(-5, 300).map(float),
        st.floats(-1e6, 1e6, allow_nan=False, width=32),
        st.sampled_from([0.0, -1.0, 1e300, -1e300, 65535.0, 65536.0, 1.8e19, "nan", "inf", "-inf"]),
    )
    return st.lists(tok, min_size=1, max_size=5)


def _arr(ok_dtypes):
    good = st.fixed_dictionaries({"shape": st.just("ok"), "dtype": st.sampled_from(list(ok_dtypes)), "vals": _vals()})
    anyd = st.fixed_dictionaries({"shape": st.sampled_from(SHAPES), "dtype": st.sampled_from(ALL_DTYPES), "vals": _vals()})
    badshape = st.fixed_dictionaries({"shape": st.sampled_from(SHAPES[3:]), "dtype": st.sampled_from(list(ok_dtypes)), "vals": _vals()})
    baddtype = st.fixed_dictionaries({"shape": st.just("ok"), "dtype": st.sampled_from(ALL_DTYPES), "vals": _vals()})
    nonarr = st.fixed_dictionaries({"nonarray": st.sampled_from(["list", "intlist", "none", "scalar", "str", "tuple"]), "vals": _vals()})
    return st.one_of(good, good, good, good, good, good, anyd, badshape, baddtype, nonarr)


def _arr3d():
    return st.fixed_dictionaries({
        "nw": st.integers(1, 3),
        "dtype": st.sampled_from(["float16", "float32", "float64", "float64", "int64", "uint16"]),
        "form": st.sampled_from(["ok", "ok", "ok", "ok", "bad_order", "no_coord", "bad_rows", "ndarray", "two_d"]),
        "vals": _vals(),
    })


@st.composite
def cases(draw):
    kind = draw(st.sampled_from(KINDS))
    det = draw(detector_specs(types=("MKID",) if kind == "phase" else ("CCD", "CMOS", "MKID", "APD"), max_rows=5, max_cols=5, full=False))
    ok = UINT_OK if kind == "image" else FLOAT_OK
    arr = _arr(ok)
    ops = [
        st.fixed_dictionaries({"op": st.just("set"), "a": arr}),
        st.fixed_dictionaries({"op": st.just("set"), "a": arr}),
        st.fixed_dictionaries({"op": st.just("iadd"), "a": arr}),
        st.fixed_dictionaries({"op": st.just("iadd"), "a": arr}),
        st.fixed_dictionaries({"op": st.just("add"), "a": arr}),
        st.just({"op": "empty"}),
        st.fixed_dictionaries({"op": st.just("det_empty"), "reset": st.booleans()}),  # the reset the exposure loop applies before every readout step
        st.fixed_dictionaries({"op": st.just("read"), "how": st.sampled_from(["array", "asarray", "dtype", "shape", "to_xarray", "array_3d", "array_2d"])}),
        st.fixed_dictionaries({"op": st.just("twin_set"), "a": arr}),
        st.just({"op": "twin_empty"}),
        st.just({"op": "twin_copy"}),
        st.fixed_dictionaries({"op": st.just("eq"), "other": st.sampled_from(["twin", "twin", "twin", "othergeo", "otherkind", "notcontainer"])}),
    ]
    if kind != "photon":  # Photon has no update()
        ops.append(st.fixed_dictionaries({"op": st.just("update"), "a": arr}))
    if kind != "phase":
        ops.append(st.fixed_dictionaries({"op": st.just("det_assign"), "geo": st.sampled_from(["same", "same", "other"]), "a": st.one_of(st.none(), arr)}))
    if kind == "photon":
        a3 = _arr3d()
        ops += [
            st.fixed_dictionaries({"op": st.just("set3d"), "a": a3}),
            st.fixed_dictionaries({"op": st.just("set3d"), "a": a3}),
            st.fixed_dictionaries({"op": st.just("iadd3d"), "a": a3}),
            st.fixed_dictionaries({"op": st.just("twin_set3d"), "a": a3}),
            st.fixed_dictionaries({"op": st.just("det_assign3d"), "geo": st.sampled_from(["same", "other"]), "a": a3}),
        ]
    seq = draw(st.lists(st.one_of(*ops), min_size=1, max_size=25))
    return {"det": det, "kind": kind, "ops": seq}


# ------------------------------------------------------------------ building values
def _tok(v):
    return SPECIAL[v] if isinstance(v, str) else float(v)


def build_value(a: dict, rows: int, cols: int):
    vals = np.array([_tok(v) for v in a["vals"]], dtype=float)
    if "nonarray" in a:
        na = a["nonarray"]
        full = np.resize(vals, (rows, cols))
        if na == "list":
            return full.tolist()
        if na == "intlist":
            with np.errstate(all="ignore"):
                return np.nan_to_num(full, nan=0, posinf=7, neginf=-7).clip(-1e9, 1e9).astype(int).tolist()
        if na == "tuple":
            return tuple(map(tuple, full.tolist()))
        if na == "none":
            return None
        if na == "scalar":
            return float(vals[0])
        return "not an array"
    shp = {
        "ok": (rows, cols), "T": (cols, rows), "row+1": (rows + 1, cols),
        "col-1": (rows, cols - 1 if cols > 1 else cols + 1), "1d": (rows * cols,), "3d": (1, rows, cols), "0d": (),
        "bcast_row": (1, cols), "bcast_col": (cols,),
    }[a["shape"]]
    full = np.resize(vals, shp)
    dt = a["dtype"]
    with np.errstate(all="ignore"):
        if dt == "str":
            return full.astype(str)
        if dt == "object":
            return full.astype(object)
        if dt == "bool":
            return np.nan_to_num(full) != 0
        if np.dtype(dt).kind in "iu":
            info = np.iinfo(np.dtype(dt))
            return np.nan_to_num(full, nan=0, posinf=float(info.max), neginf=float(info.min)).clip(float(info.min), float(info.max) if info.bits < 64 else 9e18).astype(dt)
        return full.astype(dt)


def build_3d(a: dict, rows: int, cols: int):
    import xarray as xr

    vals = np.array([_tok(v) for v in a["vals"]], dtype=float)
    nw = a["nw"]
    form = a["form"]
    r = rows + 1 if form == "bad_rows" else rows
    with np.errstate(all="ignore"):
        data = np.resize(vals, (nw, r, cols))
        if np.dtype(a["dtype"]).kind in "iu":
            data = np.nan_to_num(data, nan=0, posinf=9, neginf=0).clip(0 if np.dtype(a["dtype"]).kind == "u" else -1e9, 60000)
        data = data.astype(a["dtype"])
    wl = [400.0 + 50.0 * i for i in range(nw)]
    if form == "ndarray":
        return data
    if form == "two_d":
        return xr.DataArray(data[0], dims=["y", "x"])
    if form == "bad_order":
        return xr.DataArray(np.moveaxis(data, 0, -1), dims=["y", "x", "wavelength"], coords={"wavelength": wl})
    if form == "no_coord":
        return xr.DataArray(data, dims=["wavelength", "y", "x"])
    return xr.DataArray(data, dims=["wavelength", "y", "x"], coords={"wavelength": wl})


def classify(kind: str, v, rows: int, cols: int) -> str:
    """valid | invalid | either  for `container.array = v`."""
    if not isinstance(v, np.ndarray):
        return "invalid"
    if v.shape != (rows, cols):
        return "invalid"
    want = "u" if kind == "image" else "f"
    if v.dtype.kind != want:
        return "invalid"
    names = UINT_OK if kind == "image" else FLOAT_OK
    if v.dtype.isnative and v.dtype.name in names:
        return "valid"
    return "either"


def classify3d(v, rows, cols) -> str:
    import xarray as xr

    if not isinstance(v, xr.DataArray) or v.ndim != 3 or v.dims != ("wavelength", "y", "x"):
        return "invalid"
    if v.shape[1:] != (rows, cols) or v.dtype.kind != "f" or "wavelength" not in v.coords:
        return "invalid"
    return "valid"


# ------------------------------------------------------------------ model helpers
def same(a, b) -> bool:
    """Bit-for-bit agreement of two states (None | ndarray | ('3d', ndarray, wl))."""
    if a is None or b is None:
        return a is None and b is None
    if isinstance(a, tuple) or isinstance(b, tuple):
        if not (isinstance(a, tuple) and isinstance(b, tuple)):
            return False
        return same(a[1], b[1]) and list(a[2]) == list(b[2])
    return a.dtype == b.dtype and a.shape == b.shape and bool(np.array_equal(a, b, equal_nan=a.dtype.kind in "fc"))


def read_state(c, kind):
    """Public-API read of a container: None (empty) | ndarray | ('3d', ndarray, wl)."""
    try:
        return np.array(c.array, copy=True)
    except Exception:  # noqa: BLE001
        pass
    if kind == "photon":
        try:
            x = c.array_3d
            return ("3d", np.array(x.values, copy=True), [float(w) for w in x["wavelength"].values])
        except Exception:  # noqa: BLE001
            pass
    return None


def get_container(det, kind):
    return getattr(det, kind)


def other_geo_spec(spec):
    s = {k: (dict(v) if isinstance(v, dict) else v) for k, v in spec.items()}
    s["geometry"]["row"] = spec["geometry"]["row"] + 1
    return s


def eq_expect(m1, m2, same_shape: bool, *, photon: bool):
    """Expected value of `c1 == c2` for two containers of the same kind: True | False | None (not asserted)."""
    if not same_shape:
        if photon and m1 is None and m2 is None:
            return None  # an empty Photon carries no shape: not asserted
        return False
    if m1 is None or m2 is None:
        return m1 is None and m2 is None
    if isinstance(m1, tuple) != isinstance(m2, tuple):
        return False
    if isinstance(m1, tuple):
        a, b = m1[1], m2[1]
        if list(m1[2]) != list(m2[2]):
            return False
    else:
        a, b = m1, m2
    if a.shape != b.shape:
        return False
    strict = bool(np.array_equal(a, b))
    loose = bool(np.array_equal(a, b, equal_nan=True))
    if strict != loose:
        return None
    if strict and a.dtype != b.dtype:
        return None
    return strict


# ------------------------------------------------------------------ the check body
def body(case, rec):
    kind = case["kind"]
    spec = case["det"]
    rows, cols = spec["geometry"]["row"], spec["geometry"]["col"]
    det, twin_det = build_detector(spec), build_detector(spec)
    c, twin = get_container(det, kind), get_container(twin_det, kind)
    model, tmodel = None, None
    rec.cls(f"kind:{kind}")
    rejected_pending = False

    def invariant(where):
        nonlocal model
        real = read_state(c, kind)
        if real is not None:
            arr = real[1] if isinstance(real, tuple) else real
            want_shape = (rows, cols)
            got_shape = arr.shape[1:] if isinstance(real, tuple) else arr.shape
            rec.check(got_shape == want_shape, "inv_shape", f"{where}: holds shape {arr.shape}, detector is {want_shape}")
            rec.check(arr.dtype.kind == ("u" if kind == "image" else "f"), "inv_dtype", f"{where}: holds dtype {arr.dtype}")
            if isinstance(real, tuple):
                rec.check(arr.ndim == 3, "inv_shape", f"{where}: 3-D photon with ndim {arr.ndim}")
        rec.check(same(real, model), "model_mismatch",
                  lambda: f"{where}: container holds {_brief(real)}, reference model holds {_brief(model)}")
        if not same(real, model):
            model = real  # resynchronise so that one root cause is reported once

    for i, op in enumerate(case["ops"]):
        o = op["op"]
        where = f"op#{i} {o}"
        if o in ("set", "update", "twin_set"):
            v = build_value(op["a"], rows, cols)
            tgt = twin if o == "twin_set" else c
            if o == "update":
                cls = "valid_none" if v is None else classify(kind, np.asarray(v) if not isinstance(v, str) else v, rows, cols)
            else:
                cls = classify(kind, v, rows, cols)
            rec.cls(f"assign:{cls}")
            try:
                if o == "update":
                    tgt.update(v)
                else:
                    tgt.array = v
                raised = None
            except Exception as exc:  # noqa: BLE001
                raised = exc
            if cls in ("valid", "valid_none"):
                if not rec.check(raised is None, "valid_assignment_refused", lambda: f"{where} {op['a']}: {raised!r}"):
                    continue
            elif cls == "invalid":
                if not rec.check(raised is not None, "invalid_assignment_accepted", f"{where} {op['a']}"):
                    pass
                elif o != "twin_set":
                    rejected_pending = True
            if raised is None:
                if v is None:
                    new = None
                else:
                    new = np.array(np.asarray(v), copy=True)
                    if kind == "photon":
                        with np.errstate(all="ignore"):
                            new = np.where(new < 0, np.zeros((), dtype=new.dtype), new)
                if o == "twin_set":
                    tmodel = new
                else:
                    model = new
                    if kind == "photon" and new is not None and cls != "invalid":
                        real = read_state(c, kind)
                        if isinstance(real, np.ndarray) and real.dtype.kind == "f":
                            rec.check(not bool(np.any(real < 0)), "negative_photon", f"{where}: min {np.nanmin(real)}")
        elif o in ("set3d", "twin_set3d"):
            v = build_3d(op["a"], rows, cols)
            cls = classify3d(v, rows, cols)
            rec.cls(f"assign3d:{cls}")
            tgt = twin if o == "twin_set3d" else c
            try:
                tgt.array_3d = v
                raised = None
            except Exception as exc:  # noqa: BLE001
                raised = exc
            if cls == "valid":
                if not rec.check(raised is None, "valid_assignment_refused", lambda: f"{where}: {raised!r}"):
                    continue
                data = np.array(v.values, copy=True)
                data = np.where(data < 0, np.zeros((), dtype=data.dtype), data)
                new = ("3d", data, [float(w) for w in v["wavelength"].values])
                if o == "twin_set3d":
                    tmodel = new
                else:
                    model = new
                    rec.check(not bool(np.any(read_state(c, kind)[1] < 0)) if isinstance(read_state(c, kind), tuple) else True,
                              "negative_photon", where)
            else:
                rec.check(raised is not None, "invalid_assignment_accepted", f"{where} {op['a']}")
                if raised is not None and o == "set3d":
                    rejected_pending = True
        elif o in ("iadd", "add", "iadd3d"):
            v = build_3d(op["a"], rows, cols) if o == "iadd3d" else build_value(op["a"], rows, cols)
            was_empty = model is None
            if was_empty:
                rec.nt()
                rec.cls("iadd_on_empty")
            try:
                if o == "add":
                    _ = c + v
                else:
                    c += v  # noqa: PLW2901
                raised = None
            except Exception as exc:  # noqa: BLE001
                raised = exc
            if raised is not None:
                rejected_pending = True
                rec.cls("iadd:raised")
            else:
                rec.cls("iadd:accepted")
                # reference: what numpy's in-place addition gives on a copy of the model
                if was_empty:
                    if o == "iadd3d":
                        ok3 = classify3d(v, rows, cols) == "valid"
                        if rec.check(ok3, "invalid_assignment_accepted", f"{where} on empty accepted {op['a']}"):
                            d = np.array(v.values, copy=True)
                            model = ("3d", np.where(d < 0, np.zeros((), dtype=d.dtype), d), [float(w) for w in v["wavelength"].values])
                        else:
                            model = read_state(c, kind)
                    else:
                        cl = classify(kind, v, rows, cols)
                        if rec.check(cl != "invalid", "invalid_assignment_accepted", f"{where} on empty accepted {op['a']}"):
                            new = np.array(v, copy=True)
                            if kind == "photon":
                                new = np.where(new < 0, np.zeros((), dtype=new.dtype), new)
                            model = new
                        else:
                            model = read_state(c, kind)
                else:
                    try:
                        with np.errstate(all="ignore"):
                            if isinstance(model, tuple):
                                ref = model[1].copy()
                                ref += (v.values if hasattr(v, "values") else v)
                                model = ("3d", ref, model[2])
                            else:
                                ref = model.copy()
                                ref += (v.values if hasattr(v, "values") else v)
                                model = ref
                    except Exception:  # noqa: BLE001
                        # numpy itself refuses this addition but pyxel did not raise: whatever it
                        # holds now must still satisfy the invariant; resynchronise.
                        model = read_state(c, kind)
        elif o == "empty":
            c.empty()
            model = np.zeros((rows, cols), dtype=float) if kind == "pixel" else None
        elif o == "det_empty":
            rec.cls("det_empty:destructive" if op["reset"] else "det_empty:non_destructive")
            det.empty(op["reset"])
            if kind in ("photon", "signal", "image"):
                model = None  # emptied whatever the readout mode
            elif kind == "pixel":
                model = np.zeros((rows, cols), dtype=float) if op["reset"] else model  # kept in non-destructive mode
            else:
                model = read_state(c, kind)  # phase: MKID zeroes it in place on a destructive reset; only the invariants are asserted
        elif o == "twin_empty":
            twin.empty()
            tmodel = np.zeros((rows, cols), dtype=float) if kind == "pixel" else None
        elif o == "twin_copy":
            if model is None:
                twin.update(None) if kind != "photon" else twin.empty()
                tmodel = None
            elif isinstance(model, tuple):
                import xarray as xr

                twin.array_3d = xr.DataArray(model[1].copy(), dims=["wavelength", "y", "x"], coords={"wavelength": model[2]})
                tmodel = ("3d", np.where(model[1] < 0, np.zeros((), dtype=model[1].dtype), model[1]), list(model[2]))
            else:
                twin.array = model.copy()
                tmodel = model.copy()
                if kind == "photon":  # the setter clips negative photon counts
                    tmodel = np.where(tmodel < 0, np.zeros((), dtype=tmodel.dtype), tmodel)
        elif o == "read":
            how = op["how"]
            if how in ("array_3d", "array_2d") and kind != "photon":
                how = "array"
            if rejected_pending:
                rec.nt()
                rec.cls("read_after_reject")
            try:
                if how == "array":
                    got = c.array
                elif how == "array_2d":
                    got = c.array_2d
                elif how == "array_3d":
                    got = c.array_3d
                elif how == "asarray":
                    got = np.asarray(c)
                elif how == "dtype":
                    got = c.dtype
                elif how == "shape":
                    got = c.shape
                else:
                    got = c.to_xarray()
                raised = None
            except Exception as exc:  # noqa: BLE001
                raised, got = exc, None
            if model is None:
                rec.cls("read_empty")
                if how in ("array", "array_2d", "array_3d", "asarray", "dtype"):
                    if rec.check(raised is not None, "empty_read_returned_data", lambda: f"{where} {how} returned {_brief(got)}"):
                        rec.check(len(str(raised).strip()) > 0, "empty_read_unexplained", f"{where} {how}: {raised!r}")
                        if how in ("array", "array_2d"):
                            nm = type(c).__name__
                            rec.check(nm in str(raised), "empty_read_unexplained", f"{where}: message does not name {nm}: {str(raised)[:80]}")
                elif how == "to_xarray":
                    rec.check(raised is None and getattr(got, "size", 1) <= 1, "empty_read_returned_data", lambda: f"{where} to_xarray -> {_brief(got)} / {raised!r}")
            else:
                is3 = isinstance(model, tuple)
                marr = model[1] if is3 else model
                if how in ("array", "array_2d") and not is3:
                    rec.check(raised is None and same(np.asarray(got), marr), "read_mismatch", f"{where} {how}: {raised!r}")
                elif how == "array_3d" and is3:
                    rec.check(raised is None and same(np.asarray(got.values), marr), "read_mismatch", f"{where} {how}: {raised!r}")
                elif how in ("array", "array_2d", "array_3d"):
                    rec.check(raised is not None, "read_mismatch", f"{where} {how}: wrong-dimensional read returned data")
                elif how == "asarray" and not is3:
                    rec.check(raised is None and same(np.asarray(got), marr), "read_mismatch", f"{where} asarray: {raised!r}")
                elif how == "dtype":
                    rec.check(raised is None and got == marr.dtype, "read_mismatch", f"{where} dtype {got} vs {marr.dtype}: {raised!r}")
                elif how == "shape":
                    rec.check(raised is None and tuple(got) == marr.shape, "read_mismatch", f"{where} shape {got} vs {marr.shape}")
                elif how == "to_xarray":
                    ok = raised is None and got.shape == marr.shape and bool(np.array_equal(np.asarray(got.values), marr, equal_nan=True))
                    rec.check(ok, "read_mismatch", f"{where} to_xarray: {raised!r}")
        elif o == "eq":
            which = op["other"]
            if which == "twin":
                other, exp = twin, eq_expect(model, tmodel, True, photon=kind == "photon")
                if (model is None) != (tmodel is None):
                    rec.nt()
                    rec.cls("eq_mixed_emptiness")
            elif which == "othergeo":
                od = build_detector(other_geo_spec(spec))
                other = get_container(od, kind)
                om = None
                if model is not None and not isinstance(model, tuple):
                    # other-geometry container, non-empty
                    oa = np.resize(model, (rows + 1, cols)).astype(model.dtype)
                    other.array = oa
                    om = other.array
                exp = eq_expect(model, om, False, photon=kind == "photon")
            elif which == "otherkind":
                ok = "signal" if kind != "signal" else "pixel"
                other, exp = get_container(twin_det, ok), False
            else:
                other, exp = (None if model is None else (model[1] if isinstance(model, tuple) else model)), None
            res = []
            for a, b in ((c, other), (other, c)):
                try:
                    r = a == b
                    if isinstance(r, np.ndarray):
                        res.append(("array", None))
                    else:
                        res.append(("ok", bool(r)))
                except Exception as exc:  # noqa: BLE001
                    res.append(("raised", repr(exc)[:100]))
            if which != "notcontainer":
                rec.check(all(r[0] == "ok" for r in res), "eq_raises_or_nonbool", f"{where} vs {which}: {res}")
                if all(r[0] == "ok" for r in res):
                    rec.check(res[0][1] == res[1][1], "eq_asymmetric", f"{where} vs {which}: a==b {res[0][1]}, b==a {res[1][1]}")
                    if exp is None:
                        rec.exclude("eq_not_asserted")
                    else:
                        rec.check(res[0][1] == exp and res[1][1] == exp, "eq_wrong", f"{where} vs {which}: got {res}, expected {exp}")
            else:
                rec.check(res[0][0] != "raised" or True, "eq_raises_or_nonbool", "")
        elif o in ("det_assign", "det_assign3d"):
            sspec = spec if op["geo"] == "same" else other_geo_spec(spec)
            srows = sspec["geometry"]["row"]
            sdet = build_detector(sspec)
            src = get_container(sdet, kind)
            src_model = None
            try:
                if o == "det_assign3d":
                    v = build_3d(op["a"], srows, cols)
                    src.array_3d = v
                    src_model = read_state(src, kind)
                elif op["a"] is not None:
                    v = build_value(op["a"], srows, cols)
                    src.array = v
                    src_model = read_state(src, kind)
            except Exception:  # noqa: BLE001
                src_model = read_state(src, kind)
            rec.cls(f"det_assign:{op['geo']}:{'empty' if src_model is None else 'full'}")
            try:
                setattr(det, kind, src)
                raised = None
            except Exception as exc:  # noqa: BLE001
                raised = exc
            rec.check(get_container(det, kind) is c, "detector_container_replaced", where)
            if raised is None:
                if op["geo"] == "other" and src_model is not None:
                    rec.fail("invalid_assignment_accepted", f"{where}: detector.{kind} took a {_brief(src_model)} from a detector of another shape")
                    model = read_state(c, kind)
                elif src_model is None:
                    # assigning an empty container: either refused (handled above) or the bucket becomes empty
                    model = read_state(c, kind)
                    rec.check(model is None, "model_mismatch", f"{where}: assigning an empty {kind} left {_brief(model)}")
                else:
                    model = src_model
            else:
                rejected_pending = True
        invariant(where)
        # the twin must not be disturbed by operations on the main container (and vice versa)
        treal = read_state(twin, kind)
        if not rec.check(same(treal, tmodel), "twin_disturbed", lambda: f"{where}: twin holds {_brief(treal)}, expected {_brief(tmodel)}"):
            tmodel = treal
        if rec.failures and len(rec.failures) > 6:
            break


def _brief(s):
    if s is None:
        return "EMPTY"
    if isinstance(s, tuple):
        return f"3d{s[1].shape}:{s[1].dtype}"
    if isinstance(s, np.ndarray):
        flat = s.ravel()[:3].tolist() if s.dtype.kind in "fiub" else "..."
        return f"{s.shape}:{s.dtype}:{flat}"
    return repr(s)[:60]


PARTS = {"ops": body}


def plan(tier):
    n = 700 if tier == "quick" else 4000
    return [Part(name="ops", kind="gen", strategy=cases, examples=n)]


def known_key(part, clause, case, detail):
    return None
