"""C18 — a detector saved to a file and loaded back is the same detector."""

from __future__ import annotations

import numpy as np
from hypothesis import strategies as st

from vlib import pyx
from vlib.gen_detector import build_detector, detector_specs
from vlib.runner import Part

PROPERTY = "C18"
LEVEL = "exploration"
RULE = (
    "Part 'roundtrip': Hypothesis generates a detector (4 types, every optional property in range or unset, APD in its three "
    "legal parameter combinations) and a subset of containers to initialise with generated contents - photon 2-D "
    "(f16/32/64) or 3-D, charge array and/or cluster table, pixel, signal, image (uint8..64), phase (MKID), 0..2 scene "
    "sources, data nodes; the detector is saved as ASDF and loaded through Detector.load and the type-specific loader; a "
    "field-by-field comparator of the harness (never pyxel's ==) compares everything. Part 'model': a file made from detector X "
    "is loaded by the load_detector model at a generated pipeline position of a running detector Y with other contents. "
    "Non-trivial: >=3 containers initialised including an optional one (3-D photon, clusters, phase, scene, data); distinct "
    "by canonical JSON. HDF5 is skipped (h5py is not installed here) and counted."
)
ASSUMPTIONS = ["containers are compared by emptiness, shape, kind of dtype (float / unsigned) and exact values; a value-preserving widening of the dtype (float32 -> float64 for 3-D photons) is not a difference",
               "HDF5 backend absent: skipped and counted as skipped_hdf5; the code path is identical from to_dict on",
               "float comparisons are exact (binary formats)"]
SHARDS = {"quick": 8, "thorough": 16}

CONTAINERS = ("photon", "photon3d", "charge", "clusters", "pixel", "signal", "image", "phase", "scene", "data")
OPTIONAL = {"photon3d", "clusters", "phase", "scene", "data"}


def _wavelengths(nw, order, seed):
    wl = [400.0 + 25.0 * i for i in range(nw)]
    if order == "decreasing":
        wl = wl[::-1]
    elif order == "shuffled":
        np.random.RandomState(seed).shuffle(wl)
    return wl


@st.composite
def contents(draw, typ):
    pool = [c for c in CONTAINERS if c != "phase" or typ == "MKID"]
    chosen = draw(st.lists(st.sampled_from(pool), unique=True, max_size=len(pool)))
    if "photon" in chosen and "photon3d" in chosen:
        chosen.remove(draw(st.sampled_from(["photon", "photon3d"])))
    out = {}
    for c in chosen:
        e = {"seed": draw(st.integers(0, 10**6))}
        if c in ("photon", "photon3d", "signal", "pixel", "phase"):
            e["dtype"] = draw(st.sampled_from(["float64", "float64", "float32", "float16"]))
        if c == "image":
            e["dtype"] = draw(st.sampled_from(["uint8", "uint16", "uint32", "uint64"]))
            e["big"] = draw(st.booleans())
        if c == "photon3d":
            e["nw"] = draw(st.integers(1, 4))
            e["wl_order"] = draw(st.sampled_from(["increasing", "increasing", "decreasing", "shuffled"]))  # the container accepts any wavelength axis
        if c == "scene":
            e["n"] = draw(st.integers(1, 2))
        if c == "clusters":
            e["n"] = draw(st.integers(1, 4))
        out[c] = e
    return out


@st.composite
def roundtrip_cases(draw):
    det = draw(detector_specs(max_rows=5, max_cols=5, pixel_sizes=st.sampled_from([10.0, 1.0, 18.4])))
    return {"det": det, "contents": draw(contents(det["type"])), "loader": draw(st.sampled_from(["Detector", "typed"])),
            "wl_handling": draw(st.booleans())}


@st.composite
def model_cases(draw):
    det = draw(detector_specs(max_rows=4, max_cols=4, full=False, pixel_sizes=st.just(10.0)))
    return {"det": det, "x": draw(contents(det["type"])), "y": draw(contents(det["type"])),
            "position": draw(st.sampled_from(["photon_collection", "charge_generation", "charge_collection", "charge_measurement", "readout_electronics"])),
            "steps": draw(st.integers(1, 2))}


def fill(det, cont):
    """Initialise the chosen containers with deterministic contents; returns nothing (state is read back by snapshot)."""
    import xarray as xr

    rows, cols = det.geometry.shape
    for c, e in cont.items():
        rng = np.random.RandomState(e["seed"])
        if c == "photon":
            det.photon.array = rng.uniform(0, 1000, size=(rows, cols)).astype(e["dtype"])
        elif c == "photon3d":
            nw = e["nw"]
            det.photon.array_3d = xr.DataArray(rng.uniform(0, 1000, size=(nw, rows, cols)).astype(e["dtype"]), dims=["wavelength", "y", "x"],
                                               coords={"wavelength": _wavelengths(nw, e.get("wl_order", "increasing"), e["seed"])})
        elif c == "charge":
            det.charge.add_charge_array(rng.uniform(0, 500, size=(rows, cols)).round(2))
        elif c == "clusters":
            n = e["n"]
            z = np.zeros(n)
            det.charge.add_charge(particle_type="e", particles_per_cluster=rng.uniform(1, 100, size=n).round(1), init_energy=rng.uniform(0, 5, size=n),
                                  init_ver_position=rng.uniform(0, rows, size=n) * det.geometry.pixel_vert_size,
                                  init_hor_position=rng.uniform(0, cols, size=n) * det.geometry.pixel_horz_size,
                                  init_z_position=z, init_ver_velocity=z, init_hor_velocity=rng.uniform(-1, 1, size=n), init_z_velocity=z)
        elif c == "pixel":
            det.pixel.array = rng.uniform(-10, 1e5, size=(rows, cols)).astype(e["dtype"])
        elif c == "signal":
            det.signal.array = rng.uniform(-5, 5, size=(rows, cols)).astype(e["dtype"])
        elif c == "phase":
            det.phase.array = rng.uniform(-3, 3, size=(rows, cols)).astype(e["dtype"])
        elif c == "image":
            info = np.iinfo(e["dtype"])
            hi = info.max if e["big"] else min(info.max, 4095)
            a = rng.randint(0, min(hi, 2**62), size=(rows, cols)).astype(e["dtype"])
            if e["big"]:
                a.flat[0] = info.max
            det.image.array = a
        elif c == "scene":
            for k in range(e["n"]):
                nref = 2 + k
                det.scene.add_source(xr.Dataset(
                    {"x": ("ref", rng.uniform(-50, 50, size=nref)), "y": ("ref", rng.uniform(-50, 50, size=nref)),
                     "weight": ("ref", rng.uniform(10, 20, size=nref)), "flux": (("ref", "wavelength"), rng.uniform(0, 1, size=(nref, 3)))},
                    coords={"ref": list(range(nref)), "wavelength": [500.0, 600.0, 700.0]}))
        elif c == "data":
            det.data["/probe/a"] = xr.DataTree(xr.Dataset({"v": ("k", rng.uniform(0, 1, size=3))}, coords={"k": [0, 1, 2]}))
            det.data["/other"] = xr.DataTree(xr.Dataset({"w": (("i", "j"), rng.uniform(0, 1, size=(2, 2)))}))
            shape_kind = int(rng.randint(0, 4))  # groups without data variables: only coordinates / only attributes / nothing at all
            if shape_kind == 1:
                det.data["/grid"] = xr.DataTree(xr.Dataset(coords={"wl": [400.0, 500.0, 600.0]}))
                det.data["/grid/child"] = xr.DataTree(xr.Dataset({"t": ("wl", rng.uniform(0, 1, size=3))}))
            elif shape_kind == 2:
                det.data["/meta"] = xr.DataTree(xr.Dataset(attrs={"origin": "probe", "n": 3}))
            elif shape_kind == 3:
                det.data["/empty_leaf"] = xr.DataTree()


def snapshot(det) -> dict:
    """Field-by-field content of a detector, read through public attributes (harness's own comparator)."""
    out = {"type": type(det).__name__}
    g = det.geometry
    out["geometry"] = {k: getattr(g, "_" + k) for k in ("row", "col", "total_thickness", "pixel_vert_size", "pixel_horz_size", "pixel_scale")}
    env = det.environment
    wl = env._wavelength
    out["environment"] = {"temperature": env._temperature, "wavelength": wl if wl is None or isinstance(wl, (int, float)) else ("handling", wl.cut_on, wl.cut_off, wl.resolution)}
    out["characteristics"] = {k: v for k, v in vars(det.characteristics).items() if k != "_numbytes"}
    ph = det.photon
    if ph._array is None:
        out["photon"] = None
    elif isinstance(ph._array, np.ndarray):
        out["photon"] = ("2d", np.array(ph.array, copy=True))
    else:
        a3 = ph.array_3d
        out["photon"] = ("3d", np.array(a3.values, copy=True), [float(w) for w in a3["wavelength"].values], tuple(a3.dims))
    for b in ("pixel", "signal", "image"):
        a = getattr(det, b)._array
        out[b] = None if a is None else np.array(a, copy=True)
    if hasattr(det, "_phase"):
        a = det._phase._array if det._phase is not None else None
        out["phase"] = None if a is None else np.array(a, copy=True)
    out["charge_array"] = np.array(det.charge.array, copy=True)
    fr = det.charge.frame
    # values as float64, plus the kind of the column's type (integer / float): a table whose integer column comes back as float is not the same table
    out["charge_frame"] = {c: (str(np.asarray(fr[c].values).dtype.kind), np.array(fr[c].values, dtype=float, copy=True)) for c in fr.columns}
    out["scene"] = _tree(det.scene.data)
    out["data"] = _tree(det.data)
    return out


def _tree(dt) -> dict:
    res = {}
    for node in dt.subtree:
        ds = node.to_dataset(inherit=False)
        res[f"{node.path}:"] = ((), np.array(sorted(f"{k}={v!r}" for k, v in ds.attrs.items()), dtype=str))  # the group itself and its attributes
        for name, da in ds.variables.items():
            res[f"{node.path}:{name}"] = (tuple(da.dims), np.array(da.values, copy=True))
    return res


def compare(a, b, rec, clause, prefix=""):
    def eq(x, y):
        if isinstance(x, np.ndarray) or isinstance(y, np.ndarray):
            # equal arrays of the same kind of type (float / unsigned): a widened but value-identical dtype is still "equal"
            if not (isinstance(x, np.ndarray) and isinstance(y, np.ndarray)) or x.dtype.kind != y.dtype.kind or x.shape != y.shape:
                return False
            if x.dtype.kind in "uUSO":
                return x.astype(object).tolist() == y.astype(object).tolist()
            return bool(np.array_equal(x.astype(np.float64), y.astype(np.float64), equal_nan=x.dtype.kind == "f"))
        if isinstance(x, tuple) and isinstance(y, tuple):
            return len(x) == len(y) and all(eq(p, q) for p, q in zip(x, y))
        if isinstance(x, dict) and isinstance(y, dict):
            return set(x) == set(y) and all(eq(x[k], y[k]) for k in x)
        if isinstance(x, list) and isinstance(y, list):
            return len(x) == len(y) and all(eq(p, q) for p, q in zip(x, y))
        if isinstance(x, float) and isinstance(y, (int, float)) or isinstance(y, float) and isinstance(x, (int, float)):
            return float(x) == float(y)
        return x == y

    ok = True
    for k in sorted(set(a) | set(b)):
        if k not in a or k not in b:
            rec.fail(f"{clause}:{k}", f"{prefix}{k} present only on one side")
            ok = False
        elif not eq(a[k], b[k]):
            rec.fail(f"{clause}:{k}", f"{prefix}{k}: original {_brief(a[k])} loaded {_brief(b[k])}")
            ok = False
    return ok


def _brief(v):
    if isinstance(v, np.ndarray):
        return f"{v.dtype}{v.shape}{v.ravel()[:3].tolist()}"
    if isinstance(v, dict):
        return "{" + ", ".join(f"{k}: {_brief(x)}" for k, x in list(v.items())[:4]) + "}"
    if isinstance(v, tuple):
        return "(" + ", ".join(_brief(x) for x in v[:3]) + ")"
    return repr(v)[:80]


def body_roundtrip(case, rec):
    import pyxel.detectors as D

    spec = case["det"]
    if case["wl_handling"]:
        spec = dict(spec, environment=dict(spec["environment"]))
        spec["environment"].pop("wavelength", None)
    det = build_detector(spec)
    if case["wl_handling"]:
        det.environment._wavelength = D.WavelengthHandling(cut_on=500.0, cut_off=900.0, resolution=50)
    cont = case["contents"]
    rec.cls(f"type:{spec['type']}", *[f"c:{c}" for c in cont], f"n_containers:{len(cont)}")
    rec.exclude("skipped_hdf5")
    rec.nt(len(cont) >= 3 and bool(OPTIONAL & set(cont)))
    with rec.must_not_raise("fill_failed"):
        fill(det, cont)
    before = snapshot(det)
    path = rec.tmp / "detector.asdf"
    loaded = None
    with rec.must_not_raise("save_or_load_failed"):
        det.save(str(path))
        cls = D.Detector if case["loader"] == "Detector" else type(det)
        loaded = cls.load(str(path))
    if loaded is None:
        return
    rec.check(type(loaded) is type(det), "loaded_type_differs", f"{type(loaded).__name__} vs {type(det).__name__}")
    compare(before, snapshot(loaded), rec, "roundtrip_differs")
    # saving must not modify the original either
    compare(before, snapshot(det), rec, "save_modified_original")


def body_model(case, rec):
    from vprobes import models as P

    spec = case["det"]
    x = build_detector(spec)
    with rec.must_not_raise("fill_failed"):
        fill(x, case["x"])
    path = rec.tmp / "x.asdf"
    with rec.must_not_raise("save_or_load_failed"):
        x.save(str(path))
    snap_x = snapshot(x)
    rec.cls(f"type:{spec['type']}", f"pos:{case['position']}")
    rec.nt(len(case["x"]) >= 2)
    # running detector Y: a writer puts Y's contents in place first (scene_generation), then the loader, then a snapshot
    P.reset()
    Pm = "vprobes.models."
    groups = {
        "scene_generation": [{"name": "fill_y", "func": "checks.c18.fill_model", "enabled": True, "arguments": {"cont": case["y"]}}],
        case["position"]: [{"name": "load", "func": "pyxel.models.load_detector", "enabled": True, "arguments": {"filename": str(path)}}],
        "data_processing": [{"name": "snap", "func": Pm + "snapshot", "enabled": True, "arguments": {"label": "end"}}],
    }
    run_spec = {"detector": spec, "pipeline": {"groups": groups, "yaml_perm": 1}, "mode": {"kind": "exposure"},
                "readout": {"times": [float(i + 1) for i in range(case["steps"])]}}
    res, cfg = None, None
    with rec.must_not_raise("run_failed"):
        cfg = pyx.build(run_spec)
        res = pyx.run(cfg, with_inherited_coords=True)
    if res is None:
        return
    # later models and the final result must see X's data: compare the detector the snapshot probe saw
    after = snapshot(cfg.detector)
    for k in ("photon", "pixel", "signal", "image", "charge_array", "charge_frame", "scene", "data") + (("phase",) if "phase" in snap_x else ()):
        compare({k: snap_x[k]}, {k: after[k]}, rec, "load_detector_did_not_replace")
    # and the returned result holds X's buckets
    node = res["/bucket"]
    for b in ("pixel", "signal", "image"):
        want = snap_x[b]
        if want is None or b not in node.data_vars or node[b].ndim < 3:
            continue
        if b == "image" and case["steps"] >= 2 and want.dtype == np.uint64 and int(want.max()) > 2**53:
            rec.exclude("excluded_known_class:K4")  # C03's recorded finding (uint64 > 2^53 through the multi-readout merge)
            continue
        got = np.asarray(node[b].isel(time=-1).values)
        rec.check(bool(np.array_equal(got.astype(float), want.astype(float))), f"result_does_not_hold_loaded_data:{b}",
                  lambda b=b, got=got, want=want: f"{b}: result {got.ravel()[:3]} file {want.ravel()[:3]}")


    # ... and its processed-data and scene containers (the file's, whatever the running detector held before the load)
    for grp, key in (("/data", "data"), ("/scene", "scene")):
        wv = {k: v for k, v in snap_x[key].items() if not k.endswith(":")}  # variables only: empty groups are not asserted for the result
        gv = {}
        if grp.strip("/") in res.children:
            for k, v in _tree(res[grp]).items():
                path, name = k.rsplit(":", 1)
                rel = path[len(grp):] or "/"
                if name:
                    gv[f"{rel}:{name}"] = v
        missing = sorted(set(wv) - set(gv))
        surplus = sorted(set(gv) - set(wv))
        differ = sorted(k for k in set(wv) & set(gv) if wv[k][0] != gv[k][0] or wv[k][1].shape != gv[k][1].shape
                        or not np.array_equal(wv[k][1].astype(object), gv[k][1].astype(object)))
        rec.check(not (missing or surplus or differ), f"result_does_not_hold_loaded_data:{key}",
                  f"{grp} of the result: missing {missing[:3]} surplus {surplus[:3]} different {differ[:3]} (the file holds {len(wv)} variables)")


def fill_model(detector, cont=None):
    """Probe model: put the 'running detector' contents in place."""
    fill(detector, cont or {})


PARTS = {"roundtrip": body_roundtrip, "model": body_model}


def plan(tier):
    q = tier == "quick"
    return [
        Part(name="roundtrip", kind="gen", strategy=roundtrip_cases, examples=60 if q else 600),
        Part(name="model", kind="gen", strategy=model_cases, examples=20 if q else 200),
    ]
