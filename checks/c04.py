"""C04 — seeded runs are bit-reproducible and seeding never leaks."""

from __future__ import annotations

import importlib
import inspect
import pkgutil

import numpy as np
from hypothesis import strategies as st

from vlib import pyx
from vlib.gen_detector import build_detector, simple_spec
from vlib.runner import Part

PROPERTY = "C04"
LEVEL = "exploration"
RULE = (
    "Part 'helper': seeds 0..2^32-1, prior generator states seed(k)+j draws, bodies that return or raise: draws inside the "
    "context equal a private RandomState(seed), the global state afterwards is bit-identical to before. Part 'models': every "
    "function under pyxel.models with a 'seed' parameter is discovered by introspection; each has a recipe (detector type, "
    "minimal arguments, pre-filled buckets) - same seed from two different prior states must give identical buckets and leave "
    "the state untouched, on a detector with a single readout and on one standing at the second of three readouts; functions without a recipe are listed as skipped. Part 'runs': generated pipelines of stochastic "
    "library models and a stochastic probe with a pipeline_seed, in exposure / sequential observation / dask observation / "
    "calibration, with or without outputs written into one parent folder (the second start finds the first one's folder name taken), executed twice from different prior states (and after an unseeded or a failing run): bit-identical results, "
    "state restored, also when a model raises mid-run; every stochastic library model followed by a later stochastic probe is in addition exposed twice on the very same objects on every run (enumerated). Part 'leak': model functions that draw random numbers without a seed "
    "parameter must not re-seed the process-wide generator (two different prior states must stay different). Non-trivial: the "
    "pipeline is really stochastic and the two prior states differ; distinct by canonical JSON."
)
ASSUMPTIONS = [
    "dask paths use the synchronous scheduler here; the threaded race on the process-wide generator is C07's recorded finding K2",
    "MT19937: advancing by the same draws is injective on states, so equal posterior states from different priors prove a re-seed",
]
SHARDS = {"quick": 8, "thorough": 16}


def _state_eq(a, b):
    return a[0] == b[0] and np.array_equal(a[1], b[1]) and a[2:] == b[2:]


def _set_prior(k, j):
    """A generated prior state of the process-wide generator: seed k, j uniform draws and - for odd k+j - one normal
    draw, which leaves a cached second Gaussian in the state (has_gauss = 1): that part of the state must survive too."""
    np.random.seed(k)
    if j:
        np.random.random_sample(j)
    if (k + j) % 2:
        np.random.normal()
    return np.random.get_state()


# ------------------------------------------------------------------ (a) helper
@st.composite
def helper_cases(draw):
    return {"seed": draw(st.one_of(st.integers(0, 2**32 - 1), st.sampled_from([0, 1, 2**32 - 1]), st.none())),
            "k": draw(st.integers(0, 2**31)), "j": draw(st.integers(0, 50)), "raises": draw(st.booleans()), "n": draw(st.integers(1, 20)),
            "nested": draw(st.one_of(st.none(), st.integers(0, 2**32 - 1)))}


def body_helper(case, rec):
    from pyxel.util import set_random_seed

    before = _set_prior(case["k"], case["j"])
    rec.cls("seed:none" if case["seed"] is None else "seed:int", "raises" if case["raises"] else "returns", "nested" if case["nested"] is not None else "flat",
            "prior_has_cached_gaussian" if before[3] else "prior_plain")
    rec.nt(case["seed"] is not None)
    inside = inner = None
    try:
        with set_random_seed(case["seed"]):
            inside = np.random.random_sample(case["n"])
            if case["nested"] is not None:
                with set_random_seed(case["nested"]):
                    inner = np.random.random_sample(3)
                after_inner = np.random.random_sample(2)
            if case["raises"]:
                raise KeyError("boom")
    except KeyError:
        pass
    after = np.random.get_state()
    if case["seed"] is not None:
        ref = np.random.RandomState(case["seed"])
        want = ref.random_sample(case["n"])
        rec.check(bool(np.array_equal(inside, want)), "draws_inside_differ_from_seeded_stream", f"seed {case['seed']}")
        rec.check(_state_eq(before, after), "global_state_not_restored", f"seed {case['seed']} raises={case['raises']} cached_gaussian_before={before[3]}")
        # and what the caller draws next is what it would have drawn without the seeded block (normals use the cached value)
        expect = np.random.RandomState()
        expect.set_state(before)
        rec.check(bool(np.array_equal(np.random.normal(size=3), expect.normal(size=3))), "later_draws_perturbed", f"seed {case['seed']}")
        if case["nested"] is not None:
            rec.check(bool(np.array_equal(inner, np.random.RandomState(case["nested"]).random_sample(3))), "draws_inside_differ_from_seeded_stream", "nested")
            rec.check(bool(np.array_equal(after_inner, ref.random_sample(2))), "nested_context_disturbed_outer_stream", "")
    else:
        ref = np.random.RandomState()
        ref.set_state(before)
        rec.check(bool(np.array_equal(inside, ref.random_sample(case["n"]))), "unseeded_context_changed_the_stream", "")


# ------------------------------------------------------------------ (b) every model with a seed parameter
def discover_seeded():
    import pyxel.models as M

    out = []
    for mod in pkgutil.walk_packages(M.__path__, "pyxel.models."):
        try:
            m = importlib.import_module(mod.name)
        except Exception:  # noqa: BLE001
            continue
        for n, f in vars(m).items():
            if inspect.isfunction(f) and f.__module__ == m.__name__:
                try:
                    ps = list(inspect.signature(f).parameters)
                except Exception:  # noqa: BLE001
                    continue
                if "seed" in ps and ps and ps[0] == "detector":
                    out.append(f"{m.__name__}.{n}")
    return sorted(set(out))


def _fill(det, level=500.0, later=False):
    shp = det.geometry.shape
    rng = np.random.RandomState(7)
    det.empty()
    det.photon.array = rng.uniform(level, 2 * level, size=shp)
    det.charge.add_charge_array(rng.uniform(level, 2 * level, size=shp))
    det.pixel.array = rng.uniform(level, 2 * level, size=shp)
    det.signal.array = rng.uniform(0.1, 2.0, size=shp)
    if later:  # the clock of the second of three readouts, as the exposure loop sets it
        det.set_readout(times=[1.0, 2.0, 3.0])
        det.time_step = 1.0
        det.time = 2.0
        det.pipeline_count = 1
        return
    det.set_readout(times=[1.0])
    det.time_step = 1.0
    det.time = 1.0


def _V(label, typ, kwargs, shape=(4, 5)):
    return {"label": label, "type": typ, "kwargs": kwargs, "shape": shape}


_CG, _CM, _PC, _CC = "pyxel.models.charge_generation.", "pyxel.models.charge_measurement.", "pyxel.models.photon_collection.", "pyxel.models.charge_collection."
_NG_NOISE = [{"ktc_bias_noise": {"ktc_noise": 1, "bias_offset": 2, "bias_amp": 2}}, {"white_read_noise": {"rd_noise": 1, "ref_pixel_noise_ratio": 2}},
             {"corr_pink_noise": {"c_pink": 1.0}}, {"uncorr_pink_noise": {"u_pink": 1.0}}, {"acn_noise": {"acn": 1.0}}, {"pca_zero_noise": {"pca0_amp": 1.0}}]
_COSMIX = {"simulation_mode": "cosmic_ray", "running_mode": "stepsize", "particle_type": "proton", "initial_energy": 100.0, "particles_per_second": 100.0,
           "spectrum_file": "@proton_spectrum", "progressbar": False}
# every model with a `seed` argument, each with the option combinations that take different random-number paths through it
RECIPES = {
    _PC + "shot_noise.shot_noise": [_V("poisson", "CCD", {"type": "poisson"}), _V("normal", "CCD", {"type": "normal"})],
    _CG + "photoelectrons.simple_conversion": [_V("binomial", "CCD", {"quantum_efficiency": 0.7}), _V("no_sampling", "CCD", {"quantum_efficiency": 0.7, "binomial_sampling": False})],
    _CG + "dark_current.dark_current": [_V("spatial+temporal", "CCD", {"figure_of_merit": 1.0, "spatial_noise_factor": 0.4}),
                                        _V("spatial_only", "CCD", {"figure_of_merit": 1.0, "spatial_noise_factor": 0.4, "temporal_noise": False}),
                                        _V("temporal_only", "CCD", {"figure_of_merit": 1.0})],
    _CG + "simple_dark_current.simple_dark_current": [_V("default", "CCD", {"dark_rate": 20.0})],
    _CG + "dark_current_rule07.dark_current_rule07": [_V("spatial+temporal", "CMOS", {"cutoff_wavelength": 5.0, "spatial_noise_factor": 0.3}),
                                                      _V("spatial_only", "CMOS", {"cutoff_wavelength": 5.0, "spatial_noise_factor": 0.3, "temporal_noise": False})],
    _CG + "dark_current_saphira.dark_current_saphira": [_V("default", "APD", {})],
    _CG + "dark_current_induced.radiation_induced_dark_current": [
        _V("shot_noise", "CCD", {"depletion_volume": 64.0, "annealing_time": 0.1, "displacement_dose": 5.0e4, "shot_noise": True}),
        _V("no_shot_noise", "CCD", {"depletion_volume": 64.0, "annealing_time": 0.1, "displacement_dose": 5.0e4, "shot_noise": False})],
    _CC + "fixed_pattern_noise.fixed_pattern_noise": [_V("factor", "CCD", {"fixed_pattern_noise_factor": 0.01})],
    _CM + "readout_noise.output_node_noise": [_V("default", "CCD", {"std_deviation": 1.0})],
    _CM + "readout_noise.output_node_noise_cmos": [_V("default", "CMOS", {"readout_noise": 1.0, "readout_noise_std": 2.0})],
    _CM + "readout_noise.readout_noise_saphira": [_V("default", "APD", {"roic_readout_noise": 0.15, "controller_noise": 0.1}), _V("no_controller_noise", "APD", {"roic_readout_noise": 0.15})],
    _CM + "reset_noise.ktc_noise": [_V("capacitance", "CMOS", {"node_capacitance": 30.0e-15})],
    _CG + "photoelectrons.conversion_with_qe_map": [_V("binomial", "CCD", {"filename": "@qe_map"})],
    _CG + "charge_deposition.charge_deposition": [
        _V("normal_energies", "CCD", {"flux": 30, "stopping_power_curve": "@stopping"}, (10, 10)),
        _V("spectrum_log", "CCD", {"flux": 30, "stopping_power_curve": "@stopping", "energy_spectrum": "@spectrum", "energy_spectrum_sampling": "log"}, (10, 10)),
        _V("spectrum_linear", "CCD", {"flux": 30, "stopping_power_curve": "@stopping", "energy_spectrum": "@spectrum", "energy_spectrum_sampling": "linear"}, (10, 10)),
        _V("orthogonal", "CCD", {"flux": 30, "stopping_power_curve": "@stopping", "particle_direction": "orthogonal"}, (10, 10))],
    _CG + "charge_deposition.charge_deposition_in_mct": [
        _V("normal_energies", "CMOS", {"flux": 30, "stopping_power_curve": "@stopping"}, (10, 10)),
        _V("spectrum_log", "CMOS", {"flux": 30, "stopping_power_curve": "@stopping", "energy_spectrum": "@spectrum"}, (10, 10)),
        _V("spectrum_linear_orthogonal", "CMOS", {"flux": 30, "stopping_power_curve": "@stopping", "energy_spectrum": "@spectrum", "energy_spectrum_sampling": "linear",
                                                  "particle_direction": "orthogonal"}, (10, 10))],
    _CG + "cosmix.cosmix.cosmix": [_V("random_angles_positions", "CCD", dict(_COSMIX), (8, 8)),
                                   _V("fixed_angles_positions", "CCD", dict(_COSMIX, incident_angles=None, starting_position=None), (8, 8))],
    _CM + "nghxrg.nghxrg.nghxrg": [_V("all_noise_sources", "CMOS", {"noise": _NG_NOISE}, (10, 15)),
                                   _V("window", "CMOS", {"noise": _NG_NOISE[:2], "window_position": [2, 3], "window_size": [5, 6]}, (10, 15))],
}


def _materialise(kwargs, tmp):
    """Replace @placeholders by files written into the case's scratch directory (or shipped with pyxel)."""
    import pyxel

    kw = dict(kwargs)
    for k, v in list(kw.items()):
        if v == "@qe_map":
            np.save(tmp / "qe.npy", np.full((4, 5), 0.6))
            kw[k] = str(tmp / "qe.npy")
        elif v == "@stopping":
            e = np.logspace(-3, 4, 60)
            (tmp / "stopping.csv").write_text("\n".join(["MeV,MeV cm2/g"] + [f"{a:.6e},{b:.6e}" for a, b in zip(e, 500.0 / (1.0 + e) + 2.0)]) + "\n")
            kw[k] = str(tmp / "stopping.csv")
        elif v == "@spectrum":
            en = np.logspace(-1, 3, 40)
            np.savetxt(tmp / "spectrum.txt", np.column_stack([en, en ** -1.5]), header="MeV flux")
            kw[k] = str(tmp / "spectrum.txt")
        elif v == "@proton_spectrum":
            from pathlib import Path

            kw[k] = str(Path(pyxel.__file__).parent / "models" / "charge_generation" / "data" / "proton_L2_solarMax_11mm_Shielding.txt")
    return kw


def model_cases():
    return [{"func": f, "variant": v, "seed": s, "k1": 11, "j1": 0, "k2": 99, "j2": 5}
            for f in discover_seeded() for v in range(len(RECIPES.get(f, [None]))) for s in (0, 12345, 2**32 - 1)] + \
           [{"func": f, "variant": v, "seed": 12345, "k1": 11, "j1": 0, "k2": 99, "j2": 5, "later_readout": True}  # the detector is at the 2nd of 3 readouts
            for f in discover_seeded() for v in range(len(RECIPES.get(f, [None])))]


def body_models(case, rec):
    from vprobes.models import bucket_state

    name = case["func"]
    rec.cls(f"model:{name.rsplit('.', 1)[1]}")
    if name not in RECIPES:
        rec.exclude(f"skipped_no_recipe:{name.rsplit('.', 1)[1]}")
        return
    rec.nt()
    var = RECIPES[name][case.get("variant", 0)]
    typ, kwargs = var["type"], _materialise(var["kwargs"], rec.tmp)
    mod, fn = name.rsplit(".", 1)
    rec.cls(f"variant:{fn}:{var['label']}", "detector_at_a_later_readout" if case.get("later_readout") else "single_readout")
    func = getattr(importlib.import_module(mod), fn)
    spec = simple_spec(typ, row=var["shape"][0], col=var["shape"][1])
    spec["environment"]["temperature"] = 300.0 if typ != "APD" else 80.0
    if typ == "APD":
        spec["characteristics"].update({"avalanche_gain": 10.0})
    outs, states = [], []
    for (k, j) in ((case["k1"], case["j1"]), (case["k2"], case["j2"])):
        det = build_detector(spec)
        _fill(det, later=bool(case.get("later_readout")))
        before = _set_prior(k, j)
        try:
            func(det, seed=case["seed"], **kwargs)
        except Exception as exc:  # noqa: BLE001
            rec.fail(f"recipe_failed:{fn}:{var['label']}", f"{exc!r}"[:300])
            return
        after = np.random.get_state()
        rec.check(_state_eq(before, after), f"seeded_model_leaks_into_global_state:{fn}", f"options {var['label']}, seed {case['seed']}")
        try:
            state = bucket_state(det)
        except Exception:  # noqa: BLE001  (e.g. charge_deposition 'orthogonal' leaves an object-typed cluster table whose binning fails: not this property)
            rec.exclude(f"charge_array_unreadable_after:{fn}:{var['label']}")
            state = {"photon": None, "charge": None, "pixel": None, "signal": None}
        outs.append(dict(state, cluster_table=np.array([[repr(x) for x in row] for row in det.charge.frame.to_numpy()], dtype=object)))
    for b in ("photon", "charge", "pixel", "signal", "cluster_table"):
        a, c = outs[0][b], outs[1][b]
        if b == "cluster_table":
            same = a.shape == c.shape and bool(np.all(a == c))
        else:
            same = (a is None and c is None) or (a is not None and c is not None and np.shape(a) == np.shape(c)
                                                 and np.array_equal(np.asarray(a, dtype=float), np.asarray(c, dtype=float), equal_nan=True))
        rec.check(same, f"seeded_model_not_reproducible:{fn}", f"options {var['label']}: {b} differs between two calls with seed {case['seed']}")
    # and it really is stochastic: an unseeded call from another state gives something else (vacuity guard, not a verdict)
    det = build_detector(spec)
    _fill(det, later=bool(case.get("later_readout")))
    _set_prior(5, 1)
    try:
        func(det, **kwargs)
        u = bucket_state(det)
        if all(outs[0][b] is not None and np.array_equal(np.asarray(u[b], dtype=float), np.asarray(outs[0][b], dtype=float), equal_nan=True) for b in ("photon", "charge", "pixel", "signal") if u[b] is not None):
            rec.cls(f"vacuous:not_stochastic:{fn}:{var['label']}")
    except Exception:  # noqa: BLE001
        pass


# ------------------------------------------------------------------ (c) whole runs
STOCH = {
    "shot": ("photon_collection", "pyxel.models.photon_collection.shot_noise", {"type": "poisson"}),
    "conv": ("charge_generation", "pyxel.models.charge_generation.simple_conversion", {"quantum_efficiency": 0.8}),
    "dark": ("charge_generation", "pyxel.models.charge_generation.dark_current", {"figure_of_merit": 5.0, "spatial_noise_factor": 0.2}),
    "sdc": ("charge_generation", "pyxel.models.charge_generation.simple_dark_current", {"dark_rate": 30.0}),
    "fpn": ("charge_collection", "pyxel.models.charge_collection.fixed_pattern_noise", {"fixed_pattern_noise_factor": 0.02}),
    "noise": ("charge_measurement", "pyxel.models.charge_measurement.output_node_noise", {"std_deviation": 0.5}),
    "probe": ("charge_measurement", "vprobes.models.stochastic", {"scale": 2.0}),
}


@st.composite
def run_cases(draw):
    kinds = draw(st.lists(st.sampled_from(sorted(STOCH)), min_size=1, max_size=4, unique=True))
    return {"models": kinds, "mode": draw(st.sampled_from(["exposure", "exposure", "obs_seq", "obs_dask", "calibration"])),
            "pipeline_seed": draw(st.one_of(st.integers(0, 2**32 - 1), st.sampled_from([0, 42]))),
            "own_seeds": draw(st.booleans()), "steps": draw(st.integers(1, 3)),
            "prior": [[draw(st.integers(0, 10**6)), draw(st.integers(0, 20))], [draw(st.integers(0, 10**6)), draw(st.integers(0, 20))]],
            "earlier": draw(st.sampled_from(["nothing", "unseeded_run", "failing_run"])),
            "pygmo_seed": draw(st.one_of(st.sampled_from([0, 0, 1, 100000]), st.integers(0, 100000))),  # "all seeds": the ends of the accepted range too
            "fail_at": draw(st.sampled_from([None, None, "mid"])), "same_objects": draw(st.booleans()),
            # outputs configured: every run of the case writes into the same parent folder, within the same second as a rule (colliding folder names)
            "outputs": draw(st.sampled_from([False, False, True]))}


def same_object_cases():
    """Every stochastic library model followed by a later stochastic probe, exposed twice on the very same detector / pipeline / mode objects."""
    out = []
    for i, k in enumerate(sorted(STOCH)):
        if k == "probe":
            continue
        for steps, seed in ((1, 42), (2, 0), (3, 2**32 - 1)):
            out.append({"models": [k, "probe"], "mode": "exposure", "pipeline_seed": seed, "own_seeds": False, "steps": steps,
                        "prior": [[11 + i, 0], [99, 5 + i]], "earlier": "nothing", "pygmo_seed": 1, "fail_at": None, "same_objects": True, "outputs": False})
    return out


def _run_spec(case, tmp, seeded=True, fail=False):
    groups = {"photon_collection": [{"name": "illum", "func": "pyxel.models.photon_collection.illumination", "enabled": True, "arguments": {"level": 500.0}}]}
    for i, k in enumerate(case["models"]):
        g, f, args = STOCH[k]
        args = dict(args)
        if case["own_seeds"] and k != "probe" and i % 2 == 0:
            args["seed"] = 1000 + i
        groups.setdefault(g, []).append({"name": k, "func": f, "enabled": True, "arguments": args})
    if "conv" not in case["models"]:
        groups.setdefault("charge_generation", []).insert(0, {"name": "conv0", "func": "pyxel.models.charge_generation.simple_conversion", "enabled": True,
                                                               "arguments": {"binomial_sampling": False}})
    groups.setdefault("charge_collection", []).insert(0, {"name": "collect", "func": "pyxel.models.charge_collection.simple_collection", "enabled": True, "arguments": {}})
    groups.setdefault("charge_measurement", []).insert(0, {"name": "measure", "func": "pyxel.models.charge_measurement.simple_measurement", "enabled": True, "arguments": {}})
    if fail:
        groups.setdefault("readout_electronics", []).append({"name": "boom", "func": "vprobes.models.fault2", "enabled": True,
                                                             "arguments": {"armed": True, "exc": "RuntimeError", "token": "seeded-failure", "at_step": case["steps"] - 1}})
    det = simple_spec("CCD", row=3, col=4)
    det["environment"]["temperature"] = 300.0
    spec = {"detector": det, "pipeline": {"groups": groups, "yaml_perm": 1}, "readout": {"times": [float(i + 1) for i in range(case["steps"])]}}
    if seeded:
        spec["pipeline_seed"] = case["pipeline_seed"]
    mode = case["mode"]
    if case.get("outputs") and mode != "calibration":
        spec["outputs"] = {"output_folder": str(tmp / "out"), "save_data_to_file": [{"detector.pixel.array": ["npy"]}]}
    if mode == "exposure":
        spec["mode"] = {"kind": "exposure"}
    elif mode.startswith("obs"):
        spec["mode"] = {"kind": "observation", "with_dask": mode == "obs_dask",
                        "parameters": [{"key": "pipeline.photon_collection.illum.arguments.level", "values": [300.0, 600.0, 900.0]}]}
    else:
        np.save(tmp / "target.npy", np.full((3, 4), 400.0))
        spec.pop("readout")
        spec["mode"] = {"kind": "calibration", "target_data_path": [str(tmp / "target.npy")],
                        "fitness_function": {"func": "pyxel.calibration.fitness.sum_of_abs_residuals"},
                        "algorithm": {"type": "sade", "generations": 2, "population_size": 8},
                        "parameters": [{"key": "pipeline.photon_collection.illum.arguments.level", "values": "_", "boundaries": [100.0, 1000.0]}],
                        "result_type": "pixel", "target_fit_range": [0, 3, 0, 4], "result_fit_range": [0, 3, 0, 4], "pygmo_seed": case["pygmo_seed"]}
    return spec


def _flatten(res):
    out = {}
    for node in res.subtree:
        if node.path.startswith(("/simulated", "/full_size")):
            continue
        ds = node.to_dataset(inherit=False)
        for name, da in ds.variables.items():
            try:
                out[f"{node.path}:{name}"] = np.asarray(da.values)
            except Exception:  # noqa: BLE001
                pass
    return out


def body_runs(case, rec):
    rec.cls(f"mode:{case['mode']}", f"earlier:{case['earlier']}", *[f"m:{k}" for k in case["models"]], "same_objects_run_twice" if case.get("same_objects") else "rebuilt_from_the_configuration",
            "outputs" if case.get("outputs") and case["mode"] != "calibration" else "no_outputs")
    shared_cfg = None
    rec.nt(case["prior"][0] != case["prior"][1])
    results = []
    for idx, (k, j) in enumerate(case["prior"]):
        if idx == 1 and case["earlier"] != "nothing":
            # "whatever ran earlier in the process"
            _set_prior(k + 1, 3)
            try:
                pyx.run(pyx.build(_run_spec(case, rec.tmp, seeded=False, fail=case["earlier"] == "failing_run")), with_inherited_coords=True)
            except Exception:  # noqa: BLE001
                pass
        before = _set_prior(k, j)
        res = None
        with rec.must_not_raise(f"seeded_run_failed[{case['mode']}]"):
            if case.get("same_objects"):
                # "repeating a run of the same configuration": the very same detector / pipeline / mode objects, run again
                if idx == 0:
                    shared_cfg = pyx.build(_run_spec(case, rec.tmp))
                res = pyx.run(shared_cfg, with_inherited_coords=True)
            else:
                res = pyx.run(pyx.build(_run_spec(case, rec.tmp)), with_inherited_coords=True)
        after = np.random.get_state()
        if res is None:
            return
        rec.check(_state_eq(before, after), f"seeded_run_changed_global_state[{case['mode']}]", f"pipeline_seed {case['pipeline_seed']}")
        results.append(_flatten(res))
    a, b = results
    rec.check(set(a) == set(b), f"seeded_runs_differ[{case['mode']}]", f"variables {set(a) ^ set(b)}")
    for key in sorted(set(a) & set(b)):
        same = a[key].shape == b[key].shape and (a[key].dtype.kind not in "fiu" and True or bool(np.array_equal(a[key], b[key], equal_nan=a[key].dtype.kind == "f")))
        if not rec.check(same, f"seeded_runs_differ[{case['mode']}]", f"{key}: {a[key].ravel()[:3]} vs {b[key].ravel()[:3]}"):
            break
    # a model that raises mid-run: the state must be restored too
    if case["fail_at"] == "mid" and case["mode"] in ("exposure", "obs_seq"):
        before = _set_prior(*case["prior"][0])
        try:
            pyx.run(pyx.build(_run_spec(case, rec.tmp, fail=True)), with_inherited_coords=True)
            rec.fail("failing_run_did_not_fail", "")
        except Exception:  # noqa: BLE001
            pass
        rec.check(_state_eq(before, np.random.get_state()), f"global_state_not_restored_after_error[{case['mode']}]", "")
    # vacuity guard: the pipeline is really stochastic
    _set_prior(1, 0)
    u1 = _flatten(pyx.run(pyx.build(_run_spec(case, rec.tmp, seeded=False)), with_inherited_coords=True)) if case["mode"] == "exposure" else None
    if u1 is not None:
        _set_prior(2, 0)
        u2 = _flatten(pyx.run(pyx.build(_run_spec(case, rec.tmp, seeded=False)), with_inherited_coords=True))
        if all(np.array_equal(u1[k_], u2[k_], equal_nan=True) for k_ in u1 if k_ in u2 and u1[k_].dtype.kind == "f"):
            rec.cls("vacuous:pipeline_not_stochastic")


# ------------------------------------------------------------------ (d) unseeded random models must not re-seed the process
LEAK = {
    "sar_adc_with_noise": ("CCD", "pyxel.models.readout_electronics.sar_adc_with_noise", lambda: {"strengths": tuple([0.01] * 8), "noises": tuple([0.001] * 8)}, {"adc_bit_resolution": 8}),
    "multiplication_register": ("CCD", "pyxel.models.charge_transfer.multiplication_register", lambda: {"total_gain": 10, "gain_elements": 4}, {}),
    "multiplication_register_cic": ("CCD", "pyxel.models.charge_transfer.multiplication_register_cic", lambda: {"total_gain": 10, "gain_elements": 4, "pcic_rate": 0.1, "scic_rate": 0.01}, {}),
    "pulse_processing": ("MKID", "pyxel.models.phasing.pulse_processing", lambda: {"wavelength": 1.0, "responsivity": 1.0, "scaling_factor": 2.5e2}, {}),
}


def leak_cases():
    return [{"model": m, "k1": a, "k2": b} for m in sorted(LEAK) for a, b in ((1, 2), (10, 77))]


def body_leak(case, rec):
    typ, name, mk, ch = LEAK[case["model"]]
    rec.cls(f"leak:{case['model']}")
    rec.nt()
    mod, fn = name.rsplit(".", 1)
    func = getattr(importlib.import_module(mod), fn)
    if case["model"] == "pulse_processing":
        # its phase conversion (numerical superconductor theory) takes minutes - the repository skips its own test for that
        # reason; the harness stubs that helper from the outside so that the random-number part of the model is reached
        import sys

        importlib.import_module("pyxel.models.phasing.pulse_processing")
        PP = sys.modules["pyxel.models.phasing.pulse_processing"]  # (the package attribute of that name is the function)
        PP.convert_to_phase = lambda array_2d, **kw: np.full(np.asarray(array_2d).shape, 5.0)
    posts = []
    for k in (case["k1"], case["k2"]):
        det = build_detector(simple_spec(typ, row=3, col=3, **ch))
        _fill(det, level=20.0)
        det.pixel.array = np.full((3, 3), 4.0)
        if typ == "MKID":
            det.charge.empty()
            det.charge.add_charge_array(np.full((3, 3), 3.0))
        before = _set_prior(k, 0)
        try:
            func(det, **mk())
        except Exception as exc:  # noqa: BLE001
            rec.exclude(f"leak_recipe_failed:{case['model']}:{type(exc).__name__}")
            rec.cls(f"leak_recipe_failed:{case['model']}")
        posts.append(np.random.get_state())
    rec.check(not _state_eq(posts[0], posts[1]), f"unseeded_model_reseeds_the_process:{case['model']}",
              "two different prior generator states ended in the same state: the model re-seeded the process-wide generator")


def seed_boundary_cases():
    """Calibration at the ends of both seed ranges (enumerated, so that they are run whatever the random draw)."""
    out = []
    for pg in (0, 1, 100000):
        for ps in (0, 2**32 - 1):
            out.append({"models": ["shot", "noise"], "mode": "calibration", "pipeline_seed": ps, "own_seeds": False, "steps": 1,
                        "prior": [[11, 0], [99, 5]], "earlier": "nothing", "pygmo_seed": pg, "fail_at": None})
    return out


PARTS = {"helper": body_helper, "models": body_models, "runs": body_runs, "leak": body_leak, "seed_boundaries": body_runs}


def plan(tier):
    q = tier == "quick"
    return [
        Part(name="helper", kind="gen", strategy=helper_cases, examples=200 if q else 2000),
        Part(name="models", kind="enum", cases=model_cases),
        Part(name="leak", kind="enum", cases=leak_cases),
        Part(name="runs", kind="gen", strategy=run_cases, examples=25 if q else 200),
        Part(name="runs", kind="enum", cases=same_object_cases, label="each_model_twice_on_the_same_objects"),
        Part(name="seed_boundaries", kind="enum", cases=seed_boundary_cases),
    ]
