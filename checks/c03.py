"""C03 — the returned result is a faithful, complete record of every step."""

from __future__ import annotations

import numpy as np
from hypothesis import strategies as st

from vlib import pyx
from vlib.gen_detector import simple_spec
from vlib.runner import Part

PROPERTY = "C03"
LEVEL = "exploration"
RULE = (
    "Hypothesis generates exposures of 1..5 steps (start time != 0 allowed) over pipelines of writer probes - one per "
    "group, each with a per-step plan (value or 'not written') and dtype for photon (2-D f16/32/64 or 3-D with 2-3 "
    "wavelengths, a third of the cubes carrying 'y' / 'x' positions of their own), charge (array or clusters), pixel, signal (f16/32/64), image (uint8..uint64, values up to the dtype "
    "maximum, <= 2^53), scene and processed-data nodes; a snapshot probe runs last in every step and every writer "
    "snapshots the buckets before and after itself. The case is run with debug off in both result layouts and with debug "
    "on; every slice, label, dtype, scene/data node and debug record is compared with the snapshots. Exposures of 31..100 readouts (around and at multiples of 32 and 50) are enumerated on every run. Non-trivial: >=2 "
    "steps and a bucket whose planned value differs between steps; distinct by canonical JSON."
)
ASSUMPTIONS = [
    "image written in all steps or in none (an unsigned slice cannot represent 'empty'); the mixed class is never generated",
    "debug completeness is asserted only for buckets whose value after the model differs both from the value before the model "
    "and from the state after the previously executed model (the reading that is independent of which reference 'changed' uses)",
    "uint64 image values above 2^53 are a recorded known finding (K4), excluded from the main search and probed separately",
]
SHARDS = {"quick": 8, "thorough": 16}

GROUP_OF = {"photon": "photon_collection", "photon3d": "photon_collection", "photon_iadd": "photon_collection", "pixel_iadd": "charge_collection",
            "signal_iadd": "charge_measurement", "scene": "scene_generation",
            "charge": "charge_generation", "clusters": "charge_generation", "pixel": "charge_collection",
            "signal": "charge_measurement", "image": "readout_electronics", "data": "data_processing"}
IMG_MAX = {"uint8": 255, "uint16": 65535, "uint32": 2**32 - 1, "uint64": 2**53}


@st.composite
def cases(draw, big_uint64=False):
    n = draw(st.integers(1, 5))
    start = draw(st.sampled_from([0.0, 0.0, 0.5, 3.0, -2.0]))
    incs = draw(st.lists(st.integers(1, 12).map(lambda k: k * 0.25), min_size=n, max_size=n))
    times, t = [], start
    for d in incs:
        t = t + d
        if t == 0.0:
            t += 0.25
        times.append(t)
    plan = {}
    # cluster tables are kept rare: pyxel re-JITs its binning kernel on every read (~0.1 s each)
    pool = list(GROUP_OF) if draw(st.sampled_from([False] * 7 + [True])) else [b for b in GROUP_OF if b != "clusters"]
    pool = [b for b in pool if not b.endswith("_iadd")]
    buckets = draw(st.lists(st.sampled_from(pool), unique=True, min_size=1, max_size=7))
    if "photon" in buckets and "photon3d" in buckets:
        buckets.remove(draw(st.sampled_from(["photon", "photon3d"])))
    # a second model of the same group that updates the bucket IN PLACE after the first one wrote it
    for base in ("photon", "pixel", "signal"):
        if base in buckets and draw(st.booleans()):
            buckets.insert(buckets.index(base) + 1, base + "_iadd")
    for b in buckets:
        if b == "image":
            dt = draw(st.sampled_from(["uint8", "uint16", "uint32", "uint64"]))
            mx = IMG_MAX[dt] if not (big_uint64 and dt == "uint64") else 2**64 - 1
            v = st.one_of(st.integers(0, 300).map(lambda k, mx=mx: min(k, mx)), st.sampled_from([mx, mx - 1, mx // 2]))
            vals = draw(st.lists(v, min_size=n, max_size=n))
        elif b.endswith("_iadd"):
            dt = "float64"
            base_vals = plan[b.split("_")[0]]["values"]
            vals = [None if bv is None else draw(st.integers(1, 50)) for bv in base_vals]  # only where the bucket was initialised
        else:
            dt = draw(st.sampled_from(["float64", "float64", "float32", "float16"])) if b in ("photon", "photon3d", "signal") else "float64"
            elem = st.one_of(st.none(), st.integers(1, 250))
            if b in ("photon", "pixel", "signal"):  # non-finite content must be recorded as it is
                elem = st.one_of(st.none(), st.integers(1, 250), st.integers(1, 250), st.integers(1, 250), st.sampled_from(["nan", "inf", "mix"]))
            vals = draw(st.lists(elem, min_size=n, max_size=n))
        plan[b] = {"dtype": dt, "values": vals}
        if b == "photon3d":
            plan[b]["nw"] = draw(st.integers(2, 3))
            plan[b]["own_xy"] = draw(st.sampled_from([False, False, True]))
    return {
        "det_type": draw(st.sampled_from(["CCD", "CMOS", "MKID", "APD"])),
        "shape": [draw(st.integers(1, 4)), draw(st.integers(1, 4))],
        "start": start, "times": times, "non_destructive": draw(st.booleans()),
        "plan": plan,
    }


def long_schedule_cases():
    """Exposures of many readouts (the per-step results are merged as the exposure goes): counts around and at multiples of 32 and 50."""
    out = []
    for i, n in enumerate([31, 32, 33, 50, 64, 96, 100]):
        dt = ["uint8", "uint16", "uint32", "uint64"][i % 4]
        out.append({"det_type": ["CCD", "CMOS"][i % 2], "shape": [2, 3], "start": 0.0, "times": [float(k + 1) for k in range(n)], "non_destructive": bool(i % 2),
                    "plan": {"image": {"dtype": dt, "values": [(7 * k) % 200 + 1 for k in range(n)]},
                             "pixel": {"dtype": "float64", "values": [(3 * k) % 250 + 1 for k in range(n)]},
                             "signal": {"dtype": "float32", "values": [None if k % 5 == 4 else (k % 100) + 1 for k in range(n)]}}})
    return out


def k4_probe_cases():
    base = {"det_type": "CCD", "shape": [2, 2], "start": 0.0, "times": [1.0, 2.0], "non_destructive": False}
    return [dict(base, plan={"image": {"dtype": "uint64", "values": [2**53 + 1, 2**64 - 1]}}),
            dict(base, plan={"image": {"dtype": "uint64", "values": [2**63 + 5, 7]}})]


def _pipeline(plan, snap):
    P = "vprobes.models."
    groups = {}
    for b, spec in plan.items():
        g = GROUP_OF[b]
        tag = f"w_{b}"
        groups.setdefault(g, []).append({"name": tag, "func": P + "writer", "enabled": True,
                                         "arguments": {"plan": {b: spec}, "tag": tag, "snap": snap}})
    groups.setdefault("data_processing", []).append({"name": "zz_snapshot", "func": P + "snapshot", "enabled": True,
                                                     "arguments": {"label": "end"}})
    return {"groups": groups, "yaml_perm": 5}


def _vals(x):
    """ndarray of a snapshot entry (None | ndarray | ('3d', ndarray, wl))."""
    if x is None:
        return None
    return x[1] if isinstance(x, tuple) else x


def _eq(a, b):
    return a.shape == b.shape and bool(np.array_equal(a, b, equal_nan=True))


def _nontrivial(case):
    return len(case["times"]) >= 2 and any(len({repr(v) for v in s["values"]}) > 1 for s in case["plan"].values())


def _run(case, rec, *, debug, hier, tag):
    from vprobes import models as P

    P.reset()
    spec = {"detector": simple_spec(case["det_type"], row=case["shape"][0], col=case["shape"][1]),
            "pipeline": _pipeline(case["plan"], snap=debug), "mode": {"kind": "exposure"},
            "readout": {"times": case["times"], "start_time": case["start"]}, "non_destructive": case["non_destructive"]}
    res = None
    with rec.must_not_raise(f"run_failed[{tag}]"):
        cfg = pyx.build(spec)
        res = pyx.run(cfg, debug=debug, with_inherited_coords=hier)
    if res is None:
        return None, None, None
    return res, list(P.SNAPS), cfg


def _bucket_node(res):
    return res["/bucket"] if "bucket" in res.children else res


def _check_record(case, res, snaps, cfg, rec, tag):
    n = len(case["times"])
    ends = [s for s in snaps if s["where"] == "end"]
    if not rec.check(len(ends) == n, "snapshot_count", f"[{tag}] {len(ends)} snapshots for {n} steps"):
        return
    node = _bucket_node(res)
    rows, cols = case["shape"]
    exp_time = [case["start"] + t for t in case["times"]]
    for b in ("photon", "charge", "pixel", "signal", "image"):
        per_step = [_vals(e["buckets"][b]) for e in ends]
        if all(v is None for v in per_step):
            continue  # never initialised at the end of a step: no slice is promised
        if not rec.check(b in node.data_vars, "bucket_missing_in_result", f"[{tag}] {b} was initialised but is not in the result"):
            continue
        da = node[b]
        is3 = any(isinstance(e["buckets"][b], tuple) for e in ends)
        want_dims = ("time", "wavelength", "y", "x") if is3 else ("time", "y", "x")
        if not rec.check(tuple(da.dims) == want_dims, "wrong_dims", f"[{tag}] {b}: dims {da.dims} expected {want_dims}"):
            continue
        rec.check(da.sizes["time"] == n, "wrong_number_of_slices", f"[{tag}] {b}: {da.sizes['time']} slices for {n} steps")
        tv = [float(x) for x in da["time"].values]
        rec.check(tv == exp_time, "wrong_time_labels", f"[{tag}] {b}: time {tv} expected {exp_time}")
        rec.check(list(da["y"].values) == list(range(rows)) and list(da["x"].values) == list(range(cols)), "wrong_pixel_labels",
                  f"[{tag}] {b}: y {list(da['y'].values)} x {list(da['x'].values)}")
        for i in range(min(n, da.sizes["time"])):
            got = np.asarray(da.isel(time=i).values)
            want = per_step[i]
            if want is None:
                rec.check(bool(np.all(np.isnan(got.astype(float)))) if got.dtype.kind == "f" else False, "empty_step_not_nan",
                          f"[{tag}] {b} step {i}: bucket was empty at the end of the step but the slice holds {got.ravel()[:4]}")
            else:
                if got.dtype.kind == "u" and want.dtype.kind == "u":
                    ok = got.shape == want.shape and got.astype(object).tolist() == want.astype(object).tolist()
                else:
                    ok = _eq(got.astype(np.float64), want.astype(np.float64))
                rec.check(ok, "slice_differs_from_bucket", f"[{tag}] {b} step {i}: result {got.ravel()[:4]} bucket held {want.ravel()[:4]}")
        if b == "image" and all(v is not None for v in per_step):
            want_dt = per_step[-1].dtype
            rec.check(da.dtype == want_dt, "image_dtype_changed", f"[{tag}] image dtype {da.dtype}, detector held {want_dt}")
    # scene and data containers: returned unchanged
    _check_scene_data(case, res, cfg, rec, tag)


def _check_scene_data(case, res, cfg, rec, tag):
    import xarray as xr
    from vprobes.models import data_node, scene_source

    n = len(case["times"])
    plan = case["plan"]
    sc = plan.get("scene")
    if sc is not None:
        v = sc["values"][n - 1]
        got = res["/scene"] if "scene" in res.children else None
        if v is None:
            ok = got is None or len(got.children) == 0
            rec.check(ok, "scene_not_returned_unchanged", f"[{tag}] scene was empty at the end but result has {None if got is None else list(got.children)}")
        else:
            want = scene_source(v)
            try:
                g = res["/scene/list/0"].to_dataset(inherit=False)
                ok = g.identical(want) or g.equals(want)
            except Exception as exc:  # noqa: BLE001
                ok, g = False, repr(exc)
            rec.check(ok, "scene_not_returned_unchanged", f"[{tag}] scene source differs: {str(g)[:200]}")
    dp = plan.get("data")
    if dp is not None:
        last = [(i, v) for i, v in enumerate(dp["values"]) if v is not None]
        if last:
            i, v = last[-1]
            want = data_node(v, i).to_dataset()
            try:
                g = res["/data/probe/w_data"].to_dataset(inherit=False)
                ok = g.equals(want)
            except Exception as exc:  # noqa: BLE001
                ok, g = False, repr(exc)
            rec.check(ok, "data_not_returned_unchanged", f"[{tag}] data node differs: {str(g)[:200]}")


def _tree_values(res):
    """{path/var: ndarray} for bucket variables and scene/data nodes (layout-independent paths)."""
    out = {}
    node = _bucket_node(res)
    for name, da in node.data_vars.items():
        out[f"bucket/{name}"] = (tuple(da.dims), np.asarray(da.values), {k: np.asarray(v.values) for k, v in da.coords.items()})
    for top in ("scene", "data"):
        if top in res.children:
            for sub in res[top].subtree:
                for name, da in sub.to_dataset(inherit=False).data_vars.items():
                    out[f"{sub.path}/{name}"] = (tuple(da.dims), np.asarray(da.values), {})
    return out


def _same_values(a, b, rec, clause, what):
    ka, kb = set(a), set(b)
    if not rec.check(ka == kb, clause, f"{what}: variables differ: only in first {sorted(ka - kb)}, only in second {sorted(kb - ka)}"):
        return
    for k in sorted(ka):
        da, va, ca = a[k]
        db, vb, cb = b[k]
        ok = da == db and va.dtype == vb.dtype and va.shape == vb.shape and bool(np.array_equal(va, vb, equal_nan=va.dtype.kind == "f"))
        ok = ok and all(kk in cb and np.array_equal(ca[kk], cb[kk]) for kk in ca)
        rec.check(ok, clause, f"{what}: {k} differs ({da}:{va.dtype} vs {db}:{vb.dtype})")


def _check_debug(case, res, snaps, rec):
    n = len(case["times"])
    inter = res["/intermediate"] if "intermediate" in res.children else None
    if not rec.check(inter is not None, "debug_tree_missing", "no /intermediate"):
        return
    # chronological list of executed writers with their pre/post snapshots
    events = []
    pre = {}
    for s in snaps:
        w = s["where"]
        if w.startswith("pre:"):
            pre[(w[4:], s["step"])] = s["buckets"]
        elif w.startswith("post:"):
            events.append((s["step"], w[5:], pre[(w[5:], s["step"])], s["buckets"]))
    prev_post = None
    for step, tag, before, after in events:
        b = tag[2:]
        g = GROUP_OF[b]
        rec_name = b.split("_")[0] if b.endswith("_iadd") else b
        path = f"time_idx_{step}/{g}/{tag}"
        try:
            node = inter[path]
            recorded = {k: np.asarray(v.values) for k, v in node.to_dataset().data_vars.items()}
        except KeyError:
            node, recorded = None, None
        if not rec.check(recorded is not None, "debug_model_node_missing", f"{path} missing"):
            prev_post = after
            continue
        for name, arr in recorded.items():
            want = _vals(after.get(name))
            ok = want is not None and arr.shape == want.shape and bool(np.array_equal(arr.astype(np.float64), want.astype(np.float64), equal_nan=True))
            rec.check(ok, "debug_record_unsound", f"{path}/{name}: recorded {arr.ravel()[:4]} but the bucket held {None if want is None else want.ravel()[:4]} right after the model")
        for name in ("photon", "charge", "pixel", "signal", "image"):
            a, bf = _vals(after.get(name)), _vals(before.get(name))
            if a is None:
                continue
            if name == "charge" and not np.any(a):
                continue  # an all-zero charge bucket is not part of the detector's dataset
            pp = _vals(prev_post.get(name)) if prev_post is not None else np.zeros_like(a)
            changed_vs_before = bf is None or bf.shape != a.shape or not np.allclose(a.astype(float), bf.astype(float), equal_nan=True)
            changed_vs_prev = pp is None or pp.shape != a.shape or not np.allclose(a.astype(float), pp.astype(float), equal_nan=True)
            if changed_vs_before and changed_vs_prev:
                rec.check(name in recorded, "debug_record_incomplete", f"{path}: model changed {name} ({None if bf is None else bf.ravel()[:3]} -> {a.ravel()[:3]}) but it was not recorded")
            if not changed_vs_before and not changed_vs_prev and not (a.dtype.kind == "f" and np.isnan(a).any()):
                # (a frame containing NaN never compares equal to itself element-wise, pyxel records it again: over-recording, not asserted)
                # neither this model nor the reset before it touched the bucket (e.g. the pixel content carried through a non-destructive readout)
                rec.check(name not in recorded, "debug_record_of_unchanged_bucket",
                          f"{path}: {name} is recorded under this model although it held {a.ravel()[:3]} before the model, after it and after the previous model")
        prev_post = after
    extra = [k for k in inter.children if k.startswith("time_idx_") and int(k.rsplit("_", 1)[1]) >= n]
    rec.check(not extra and "last" not in inter.children, "debug_tree_extra_nodes", f"{extra} / last in result: {'last' in inter.children}")


def body(case, rec):
    rec.nt(_nontrivial(case))
    plan = case["plan"]
    rec.cls(*[f"bucket:{b}" for b in plan], f"steps:{len(case['times'])}", "nd" if case["non_destructive"] else "destructive")
    if "image" in plan:
        rec.cls(f"image:{plan['image']['dtype']}")
    if any(v is None for s in plan.values() for v in s["values"]):
        rec.cls("has_unwritten_step")
    flat, snaps_f, cfg_f = _run(case, rec, debug=False, hier=False, tag="flat")
    hier, snaps_h, cfg_h = _run(case, rec, debug=False, hier=True, tag="hier")
    dbg, snaps_d, cfg_d = _run(case, rec, debug=True, hier=True, tag="debug")
    if flat is not None:
        _check_record(case, flat, snaps_f, cfg_f, rec, "flat")
    if hier is not None:
        _check_record(case, hier, snaps_h, cfg_h, rec, "hier")
    if flat is not None and hier is not None:
        _same_values(_tree_values(flat), _tree_values(hier), rec, "layouts_differ", "flat vs hierarchical")
    if dbg is not None:
        _check_record(case, dbg, snaps_d, cfg_d, rec, "debug")
        if hier is not None:
            _same_values(_tree_values(hier), _tree_values(dbg), rec, "debug_changes_result", "debug off vs on")
        _check_debug(case, dbg, snaps_d, rec)


def body_k4(case, rec):
    rec.nt()
    rec.cls("k4_probe")
    hier, snaps, cfg = _run(case, rec, debug=False, hier=True, tag="hier")
    if hier is not None:
        _check_record(case, hier, snaps, cfg, rec, "hier")


PARTS = {"record": body, "k4_uint64_above_2^53": body_k4}


def known_key(part, clause, case, detail):
    if part == "k4_uint64_above_2^53" and clause in ("slice_differs_from_bucket",):
        return "K4-uint64-image-above-2^53"
    return None


def plan(tier):
    n = 80 if tier == "quick" else 500
    return [
        Part(name="record", kind="gen", strategy=cases, examples=n),
        Part(name="k4_uint64_above_2^53", kind="enum", cases=k4_probe_cases, shards=1),
        Part(name="record", kind="enum", cases=long_schedule_cases, label="long_schedules"),
    ]
