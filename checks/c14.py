"""C14 — charge is accounted identically as arrays and as positioned clusters.

Model-based testing of operation sequences on ``detector.charge`` against an exact per-pixel
accumulator (cluster binning in rational arithmetic). Cases that contain a cluster outside
the sensitive area are written to disk first and executed in a child process: the numba
kernel indexes unchecked, so a child that dies on a signal *is* the violation.
"""

from __future__ import annotations

import json
import os
import subprocess
import sys
from fractions import Fraction
from pathlib import Path

import numpy as np
from hypothesis import strategies as st

from vlib.gen_detector import build_detector
from vlib.runner import Part, Rec, worker_env

PROPERTY = "C14"
LEVEL = "exploration"
RULE = (
    "Hypothesis generates a geometry (1..6 x 1..6, pixel sizes from {10, 1, 0.1, 0.3, 1/3, 18.4, generated floats}) and a "
    "list of 1..12 operations on detector.charge: add a non-negative array (f16/32/64, with zeros), add 1..5 clusters whose "
    "positions come from the classes interior / exactly on a pixel border / +-1 ulp around a border / detector edge / "
    "negative / beyond the far edge / far beyond, read the array, read the frame, remove a subset of clusters, remove all, "
    "reset. After every operation the reported array is compared with an exact accumulator (binning = floor of the exact "
    "rational quotient position/size; outside clusters credited nowhere). Cases with an outside cluster run in a child "
    "process. A structured family removes clusters by id in 2..4 rounds with no addition in between (ids with gaps). Non-trivial: array and cluster additions interleaved with a read in between, or a border/outside cluster; "
    "distinct by canonical JSON."
)
ASSUMPTIONS = [
    "only non-negative charge is added (the statement speaks of non-negative charge)",
    "sum tolerance 1e-9 relative; binning is exact (rational arithmetic on the float values actually passed)",
    "removing a cluster removes its contribution; array charge present when the first cluster arrives becomes clusters at pixel centres",
]
SHARDS = {"quick": 8, "thorough": 16}
SIZES = (10.0, 1.0, 0.1, 0.3, 1.0 / 3.0, 18.4, 1000.0)
POS_CLASSES = ("interior", "interior", "interior", "border", "border_minus", "border_plus", "edge_far", "edge_zero", "negative", "beyond", "far", "far_negative")
OUTSIDE = {"edge_far", "negative", "beyond", "far", "far_negative"}


@st.composite
def _pos(draw):
    return {"cls": draw(st.sampled_from(POS_CLASSES)), "k": draw(st.integers(0, 5)), "frac": draw(st.floats(0.01, 0.99))}


@st.composite
def cases(draw, allow_outside=True):
    rows, cols = draw(st.integers(1, 6)), draw(st.integers(1, 6))
    size = st.one_of(st.sampled_from(SIZES), st.floats(1e-3, 1000.0))
    ops = []
    for _ in range(draw(st.integers(1, 12))):
        kind = draw(st.sampled_from(["add_array", "add_array", "add_clusters", "add_clusters", "add_clusters", "read_array",
                                     "read_frame", "remove", "remove_all", "reset", "restore", "resize"]))
        if kind == "add_array":
            ops.append({"op": kind, "dtype": draw(st.sampled_from(["float64", "float64", "float32", "float16"])),
                        "kind": draw(st.sampled_from(["zero", "uniform", "sparse", "random"])),
                        "level": draw(st.integers(0, 2000)), "seed": draw(st.integers(0, 10**6)), "reuse": draw(st.sampled_from([False, False, True]))})
        elif kind == "add_clusters":
            n = draw(st.integers(1, 5))
            cl = []
            for _ in range(n):
                pv, ph = draw(_pos()), draw(_pos())
                if not allow_outside:
                    for p in (pv, ph):
                        if p["cls"] in OUTSIDE:
                            p["cls"] = "interior"
                cl.append({"number": draw(st.one_of(st.integers(0, 1000).map(float), st.floats(0.0, 1e6))), "v": pv, "h": ph})
            # 'object': columns of Python floats, as pyxel's own charge_deposition(particle_direction='orthogonal') hands them over
            ops.append({"op": kind, "clusters": cl, "coltype": draw(st.sampled_from(["float64"] * 5 + ["object"]))})
        elif kind == "resize":
            # the pixel sizes of the same geometry object are changed (what a sweep over detector.geometry.pixel_vert_size does), after a reset
            ops.append({"op": kind, "vsize": draw(size), "hsize": draw(size)})
        elif kind == "remove":
            ops.append({"op": kind, "idx": draw(st.lists(st.integers(0, 30), min_size=1, max_size=4))})
        else:
            ops.append({"op": kind})
    return {"rows": rows, "cols": cols, "vsize": draw(size), "hsize": draw(size), "ops": ops}


@st.composite
def resize_histories(draw):
    """A second life of the same detector object with other pixel sizes: array + clusters, read, resize, array + clusters, read."""
    base = draw(cases(allow_outside=False))
    size = st.one_of(st.sampled_from(SIZES), st.floats(1e-3, 1000.0))

    def arr():
        return {"op": "add_array", "dtype": "float64", "kind": draw(st.sampled_from(["uniform", "sparse", "random"])),
                "level": draw(st.integers(1, 2000)), "seed": draw(st.integers(0, 10**6))}

    def clus():
        cl = [{"number": float(draw(st.integers(1, 1000))), "v": dict(draw(_pos()), cls="interior"), "h": dict(draw(_pos()), cls="interior")}
              for _ in range(draw(st.integers(1, 3)))]
        return {"op": "add_clusters", "clusters": cl, "coltype": "float64"}

    first = draw(st.permutations([arr(), clus()]))
    second = draw(st.permutations([arr(), clus()]))
    between = draw(st.sampled_from([[], [{"op": "reset"}], [{"op": "restore"}]]))
    base["ops"] = list(first) + [{"op": "read_array"}] + between + [{"op": "resize", "vsize": draw(size), "hsize": draw(size)}] + list(second) + [{"op": "read_array"}]
    return base


@st.composite
def removal_histories(draw):
    """Clusters are added once and then removed by id in several rounds (gaps in the ids; no addition in between), with reads after every round."""
    base = draw(cases(allow_outside=False))

    def clus(n_min, n_max):
        cl = [{"number": float(draw(st.integers(1, 1000))), "v": dict(draw(_pos()), cls="interior"), "h": dict(draw(_pos()), cls="interior")}
              for _ in range(draw(st.integers(n_min, n_max)))]
        return {"op": "add_clusters", "clusters": cl, "coltype": "float64"}

    ops = []
    if draw(st.booleans()):
        ops.append({"op": "add_array", "dtype": "float64", "kind": draw(st.sampled_from(["uniform", "sparse", "random"])),
                    "level": draw(st.integers(1, 2000)), "seed": draw(st.integers(0, 10**6))})
    ops.append(clus(3, 8))
    for _ in range(draw(st.integers(2, 4))):
        ops.append({"op": "remove", "idx": draw(st.lists(st.integers(0, 30), min_size=1, max_size=2))})
        ops.extend(draw(st.sampled_from([[{"op": "read_array"}], [{"op": "read_frame"}], [{"op": "read_array"}, {"op": "read_frame"}], []])))
    if draw(st.booleans()):
        ops.extend([clus(1, 3), {"op": "remove", "idx": draw(st.lists(st.integers(0, 30), min_size=1, max_size=2))}, {"op": "read_array"}])
    base["ops"] = ops
    return base


def _position(p, n_pix, size):
    c, k, frac = p["cls"], p["k"] % max(n_pix, 1), p["frac"]
    if c == "interior":
        return (k + frac) * size
    if c == "border":
        return k * size
    if c == "border_minus":
        return float(np.nextafter(k * size, -np.inf)) if k > 0 else float(np.nextafter(1 * size, -np.inf)) if n_pix > 0 else 0.0
    if c == "border_plus":
        return float(np.nextafter(k * size, np.inf))
    if c == "edge_far":
        return n_pix * size
    if c == "edge_zero":
        return 0.0
    if c == "negative":
        return -frac * size
    if c == "beyond":
        return (n_pix + p["k"] + frac) * size
    if c == "far":
        return 1e6 * size
    return -1e6 * size


def _bin(pos, size, n_pix):
    """Exact floor(pos/size) in rational arithmetic; None when outside [0, n_pix)."""
    q = Fraction(pos) / Fraction(size)
    idx = q.numerator // q.denominator
    return int(idx) if 0 <= idx < n_pix else None


def _has_outside(case):
    for op in case["ops"]:
        if op["op"] == "add_clusters":
            for c in op["clusters"]:
                pv = _position(c["v"], case["rows"], case["vsize"])
                ph = _position(c["h"], case["cols"], case["hsize"])
                if _bin(pv, case["vsize"], case["rows"]) is None or _bin(ph, case["hsize"], case["cols"]) is None:
                    return True
    return False


def _array(op, rows, cols):
    rng = np.random.RandomState(op["seed"])
    k = op["kind"]
    if k == "zero":
        a = np.zeros((rows, cols))
    elif k == "uniform":
        a = np.full((rows, cols), float(op["level"]))
    elif k == "sparse":
        a = np.zeros((rows, cols))
        a[rng.randint(rows), rng.randint(cols)] = float(op["level"])
    else:
        a = rng.uniform(0, max(op["level"], 1), size=(rows, cols)).round(2)
        a[rng.uniform(size=(rows, cols)) < 0.3] = 0.0
    return a.astype(op["dtype"])


def run_ops(case, rec):
    """Apply the operations to a real Charge container and to the reference accumulator."""
    rows, cols, vs, hs = case["rows"], case["cols"], case["vsize"], case["hsize"]
    det = build_detector({"type": "CCD", "geometry": {"row": rows, "col": cols, "pixel_vert_size": vs, "pixel_horz_size": hs, "total_thickness": 10.0},
                          "environment": {}, "characteristics": {}})
    ch = det.charge
    acc = np.zeros((rows, cols))  # array-mode accumulator
    clusters = None  # None = array mode; else list of [label, number, row|None, col|None]
    held_arr = held_copy = None
    seen = {"reused_object": False, "array_add": False, "cluster_add": False, "read_between": False, "special": False, "object_columns": False, "restored": False, "resized": False}

    def expected():
        if clusters is None:
            return acc.copy()
        out = np.zeros((rows, cols))
        for _l, num, r, c in clusters:
            if r is not None and c is not None:
                out[r, c] += num
        return out

    def to_clusters_from_array(a):
        out = []
        flat = a.astype(float).flatten()
        for i, v in enumerate(flat):
            if v > 0.0:
                out.append([None, float(v), i // cols, i % cols])
        return out

    def relabel(lst):
        for i, c in enumerate(lst):
            c[0] = i

    for i, op in enumerate(case["ops"]):
        o = op["op"]
        where = f"op#{i} {o}"
        try:
            if o == "add_array":
                a = _array(op, rows, cols)
                if op.get("reuse") and held_arr is not None and held_arr.shape == (rows, cols):
                    a = held_arr  # the caller adds the very same array object again (a pre-computed frame)
                    seen["reused_object"] = True
                else:
                    held_arr, held_copy = a, a.copy()
                ch.add_charge_array(a)
                a0 = held_copy if a is held_arr else a  # what the caller's array held when it was built
                rec.check(bool(np.array_equal(held_arr, held_copy)), "callers_array_modified", f"{where}: the array handed to add_charge_array now holds {held_arr.ravel()[:3]}, it held {held_copy.ravel()[:3]}")
                if clusters is None:
                    acc = acc + a0.astype(float)
                else:
                    clusters.extend(to_clusters_from_array(a0))
                    relabel(clusters)
                seen["array_add"] = True
            elif o == "resize":
                ch.empty()
                clusters, acc = None, np.zeros((rows, cols))
                det.geometry.pixel_vert_size, det.geometry.pixel_horz_size = op["vsize"], op["hsize"]
                vs, hs = op["vsize"], op["hsize"]
                seen["resized"] = True
            elif o == "restore":
                # the detector is rebuilt from its own dictionary form (what a save / load or a copy through to_dict does): same charge, and the
                # history continues on the restored object
                det = type(det).from_dict(det.to_dict())
                ch = det.charge
                seen["restored"] = True
            elif o == "add_clusters":
                n = len(op["clusters"])
                pv = np.array([_position(c["v"], rows, vs) for c in op["clusters"]], dtype=float)
                ph = np.array([_position(c["h"], cols, hs) for c in op["clusters"]], dtype=float)
                num = np.array([c["number"] for c in op["clusters"]], dtype=float)
                z = np.zeros(n)
                ct = op.get("coltype", "float64")
                if ct == "object":
                    seen["object_columns"] = True
                ch.add_charge(particle_type="e", particles_per_cluster=num.astype(ct), init_energy=z, init_ver_position=pv.astype(ct), init_hor_position=ph.astype(ct),
                              init_z_position=z.astype(ct), init_ver_velocity=z, init_hor_velocity=z, init_z_velocity=z)
                if clusters is None:
                    clusters = to_clusters_from_array(acc) if np.any(acc != 0) else []
                    acc = np.zeros((rows, cols))
                for k in range(n):
                    clusters.append([None, float(num[k]), _bin(float(pv[k]), vs, rows), _bin(float(ph[k]), hs, cols)])
                    if op["clusters"][k]["v"]["cls"] != "interior" or op["clusters"][k]["h"]["cls"] != "interior":
                        seen["special"] = True
                relabel(clusters)
                seen["cluster_add"] = True
            elif o == "read_array":
                _ = ch.array
                if seen["array_add"] or seen["cluster_add"]:
                    seen["read_between"] = True
            elif o == "read_frame":
                fr = ch.frame
                want_n = 0 if clusters is None else len(clusters)
                rec.check(len(fr) == want_n, "frame_length", f"{where}: frame has {len(fr)} clusters, model {want_n}")
                if clusters:
                    rec.check(abs(float(fr["number"].sum()) - sum(c[1] for c in clusters)) <= 1e-9 * max(1.0, sum(c[1] for c in clusters)),
                              "frame_number_sum", f"{where}: {float(fr['number'].sum())} vs {sum(c[1] for c in clusters)}")
            elif o == "remove":
                if clusters:
                    labels = [c[0] for c in clusters]
                    ids = sorted({labels[j % len(labels)] for j in op["idx"]})
                    ch.remove_from_frame(ids)
                    clusters = [c for c in clusters if c[0] not in ids]
                    if not clusters:
                        clusters = None
                        acc = np.zeros((rows, cols))
                else:
                    continue
            elif o == "remove_all":
                ch.remove_from_frame()
                if clusters is not None:
                    clusters = None
                    acc = np.zeros((rows, cols))
            elif o == "reset":
                ch.empty()
                clusters, acc = None, np.zeros((rows, cols))
        except Exception as exc:  # noqa: BLE001
            rec.fail(f"valid_operation_failed:{type(exc).__name__}", f"{where}: {exc!r}"[:300])
            return seen
        try:
            got = np.array(ch.array, dtype=float, copy=True)
        except Exception as exc:  # noqa: BLE001
            rec.fail(f"array_read_failed:{type(exc).__name__}", f"{where}: {exc!r}"[:300])
            return seen
        want = expected()
        scale = max(float(np.max(np.abs(want))), 1.0)
        ok = got.shape == want.shape and bool(np.all(np.abs(got - want) <= 1e-9 * scale))
        if not ok:
            bad = np.argwhere(np.abs(got - want) > 1e-9 * scale)
            r, c = (int(bad[0][0]), int(bad[0][1])) if len(bad) else (0, 0)
            kind = "charge_credited_to_wrong_pixel" if seen["special"] and abs(got.sum() - want.sum()) > 1e-9 * scale or seen["special"] else "reported_charge_differs_from_sum_added"
            rec.fail(kind, f"{where}: pixel ({r},{c}) reports {got[r, c]!r}, sum of charge added there is {want[r, c]!r}; totals {got.sum()!r} vs {want.sum()!r}")
            return seen
    return seen


def body(case, rec):
    outside = _has_outside(case)
    rec.cls("has_outside_cluster" if outside else "all_inside", f"ops:{min(len(case['ops']), 12)}")
    if outside and os.environ.get("C14_CHILD") != "1":
        # write-ahead replay file, then execute in a child: heap corruption must not take the worker down
        casefile = Path(rec.tmp) / "c14_case.json"
        outfile = Path(rec.tmp) / "c14_out.json"
        casefile.write_text(json.dumps(case))
        env = worker_env()
        env["C14_CHILD"] = "1"
        env["NUMBA_BOUNDSCHECK"] = "1"  # sanitizer-style: an out-of-bounds index in a kernel raises instead of corrupting silently
        p = subprocess.run([sys.executable, "-m", "checks.c14", str(casefile), str(outfile)], env=env, capture_output=True, text=True, cwd=str(Path(__file__).resolve().parent.parent))
        if p.returncode < 0 or not outfile.exists():
            rec.nt()
            rec.fail("memory_corruption_or_crash", f"child process running the case died: returncode {p.returncode}; stderr tail: {p.stderr[-300:]}")
            return
        res = json.loads(outfile.read_text())
        rec.nt(res["nontrivial"])
        for clause, detail in res["failures"]:
            rec.fail(clause, detail)
        return
    seen = run_ops(case, rec)
    rec.nt((seen["array_add"] and seen["cluster_add"] and seen["read_between"]) or seen["special"])


PARTS = {"ops": body}


def plan(tier):
    q = tier == "quick"
    return [
        Part(name="ops", kind="gen", strategy=lambda: cases(allow_outside=False), examples=25 if q else 300, label="inside_only"),
        Part(name="ops", kind="gen", strategy=cases, examples=10 if q else 150, label="with_outside_clusters"),
        Part(name="ops", kind="gen", strategy=resize_histories, examples=8 if q else 100, label="second_life_with_other_pixel_sizes"),
        Part(name="ops", kind="gen", strategy=removal_histories, examples=8 if q else 100, label="several_removals_by_id"),
    ]


if __name__ == "__main__":  # child-process entry point
    import warnings

    warnings.simplefilter("ignore")
    case = json.loads(Path(sys.argv[1]).read_text())
    r = Rec()
    s = run_ops(case, r)
    Path(sys.argv[2]).write_text(json.dumps({"failures": r.failures, "nontrivial": bool((s["array_add"] and s["cluster_add"] and s["read_between"]) or s["special"])}))
