"""C08 — a dotted parameter key addresses exactly one existing setting."""

from __future__ import annotations

import copy
import re

import numpy as np
from hypothesis import strategies as st

from vlib.gen_detector import build_detector, simple_spec
from vlib.gen_pipeline import GROUP_ORDER, build_pipeline
from vlib.runner import Part, canon

PROPERTY = "C08"
LEVEL = "exploration"
RULE = (
    "Hypothesis generates a processor (4 detector types x a pipeline of 1..4 tracing models with generated argument names "
    "and an enabled pattern). Valid keys are enumerated from the spec (every settable geometry / environment / "
    "characteristics field, every pipeline.<group>.<model>.arguments.<arg> and .enabled); invalid keys are mutations of valid "
    "ones (typo in each component, dropped / duplicated / extra component, undeclared argument, model of another group, "
    "absent group, argument of a disabled model). Values: int, float, bool, plain strings, numeric strings, list / tuple "
    "strings, lists, numpy arrays. Valid key: set changes exactly that setting to the harness's own literal denotation, get "
    "returns it, has is True. Invalid key: has is False and every entry point (Processor.set, sequential and dask "
    "observation in product/sequential mode, run_mode override_dct) raises before any model runs and leaves every object "
    "unchanged (no invented attribute). Part 'nested': keys that point inside a mapping-valued or list-of-mappings argument, over a generated history of "
    "set / Processor.replace / create_new_processor / deepcopy on a pool of processors; after every step every processor of the pool must hold exactly the "
    "values of a reference model (an assignment on one copy changes that copy and nothing else). Part 'command_line': a generated configuration is written to a YAML file and run through pyxel.run(file, override=['key=text', ...]) (what `pyxel run --override` does) for argument and enabled keys; the tracing models must receive exactly the configured arguments with the addressed ones replaced by what the texts denote. Non-trivial: key depth >=3 with a textual value, or an invalid key; distinct by JSON."
)
ASSUMPTIONS = [
    "textual values with quotes (other than a list text whose elements are quoted words or numbers: they denote strings), backslashes, leading/trailing blanks, hex/underscore/inf/nan spellings or Python keywords (True/None) are outside what a text literally denotes unambiguously and are not generated - except the texts 'True' / 'False' assigned to a model's enabled flag, which must set the boolean (a command-line override has no other way to pass one)",
    "a tuple-looking text may come back as tuple or list with equal elements",
]
SHARDS = {"quick": 8, "thorough": 16}

DET_FIELDS = {
    "geometry": {"row": ("int", 1, 9), "col": ("int", 1, 9), "total_thickness": ("float", 0.0, 1e4), "pixel_vert_size": ("float", 0.0, 1e3),
                 "pixel_horz_size": ("float", 0.0, 1e3), "pixel_scale": ("float", 0.0, 1e3)},
    "environment": {"temperature": ("float", 1.0, 1e3), "wavelength": ("float", 1.0, 5e3)},
    "characteristics": {"quantum_efficiency": ("float", 0.0, 1.0), "charge_to_volt_conversion": ("float", 0.0, 100.0), "pre_amplification": ("float", 0.0, 1e4),
                        "full_well_capacity": ("float", 0.0, 1e7), "adc_bit_resolution": ("int", 4, 64)},
}
APD_SKIP = {"charge_to_volt_conversion", "pre_amplification"}  # derived / absent on APD characteristics

# names that are attributes / methods of pyxel's own ModelGroup, ModelFunction or Arguments (a MutableMapping) objects cannot be
# told apart from them in a dotted path; such a key is refused, which the statement allows ("or is rejected") - not generated
RESERVED = {"tag", "enabled", "arguments", "name", "func", "run", "models", "get", "set", "has", "keys", "values", "items", "pop", "popitem",
            "update", "clear", "copy", "setdefault"}
_name = st.text(alphabet="abcdefghijklmnopqrstuvwxyz", min_size=2, max_size=6).filter(lambda s: s not in RESERVED)
_plain = st.text(alphabet="abcdefghijklmnopqrstuvwxyzABCXYZ_-./ ", min_size=1, max_size=10).filter(
    lambda s: s == s.strip() and not re.fullmatch(r"[+-]?(\d[\d_]*)?\.?\d*([eE][+-]?\d+)?", s) and s not in ("True", "False", "None", "inf", "nan", "-inf", "_")
    and not s[0] in "-+." and not re.match(r"^[\d.]", s) and " " not in s.strip("abcdefghijklmnopqrstuvwxyzABCXYZ_-./") )
_num_text = st.one_of(st.integers(-10**6, 10**6).map(str), st.floats(-1e6, 1e6, allow_nan=False).map(repr),
                      st.sampled_from(["7", "-3", "1e3", "2.5E-2", "0", "10.0", "+4"]))
_seq_text = st.one_of(
    st.lists(st.integers(-99, 99), min_size=1, max_size=4).map(lambda l: "[" + ", ".join(map(str, l)) + "]"),
    st.lists(st.floats(-99, 99, allow_nan=False), min_size=2, max_size=3).map(lambda l: "(" + ", ".join(map(repr, l)) + ")"),
    # a list text whose elements are quoted: every element denotes the string between the quotes, whatever it looks like
    st.lists(st.sampled_from(["1", "2.5", "abc", "x_y", "1e3", "-4", "007"]), min_size=1, max_size=3).map(lambda l: "[" + ", ".join(f"'{x}'" for x in l) + "]"),
)
arg_values = st.one_of(
    st.integers(-1000, 1000), st.floats(-1e6, 1e6, allow_nan=False), st.booleans(), _plain, _num_text, _seq_text,
    st.lists(st.one_of(st.integers(-9, 9), _num_text, _plain, st.sampled_from([0, 0.0, 0, 1])), min_size=1, max_size=3).map(lambda l: {"list": l}),  # (0: falsy but valid)
    st.lists(st.floats(-9, 9, allow_nan=False), min_size=1, max_size=3).map(lambda l: {"ndarray": l}),
)


@st.composite
def processors(draw):
    typ = draw(st.sampled_from(["CCD", "CMOS", "MKID", "APD"]))
    groups = {}
    names = draw(st.lists(_name, min_size=1, max_size=4, unique=True))
    # a model name only has to be unique inside its group: the same name may occur again in another group
    # (the key carries the group), possibly with another enabled flag and other arguments
    if draw(st.booleans()):
        names = names + [draw(st.sampled_from(names)) for _ in range(draw(st.integers(1, 2)))]
    for i, nm in enumerate(names):
        free = [g for g in GROUP_ORDER if nm not in [m["name"] for m in groups.get(g, [])]]
        g = draw(st.sampled_from(free))
        args = {a: draw(st.integers(0, 9)) for a in draw(st.lists(_name, min_size=1, max_size=3, unique=True))}
        args["tag"] = nm
        groups.setdefault(g, []).append({"name": nm, "func": "vprobes.models.trace", "enabled": draw(st.sampled_from([True, True, False])), "arguments": args})
    return {"type": typ, "pipeline": {"groups": groups, "yaml_perm": 0}}


def valid_keys(proc_spec):
    """[(key, kind, meta)] enumerated from the spec."""
    out = []
    for sec, fields in DET_FIELDS.items():
        for f, (k, lo, hi) in fields.items():
            if proc_spec["type"] == "APD" and f in APD_SKIP:
                continue
            out.append((f"detector.{sec}.{f}", "det", (k, lo, hi)))
    for g, models in proc_spec["pipeline"]["groups"].items():
        for m in models:
            for a in m["arguments"]:
                out.append((f"pipeline.{g}.{m['name']}.arguments.{a}", "arg", {"enabled": m["enabled"]}))
            out.append((f"pipeline.{g}.{m['name']}.enabled", "enabled", {}))
    return out


@st.composite
def valid_cases(draw):
    ps = draw(processors())
    keys = valid_keys(ps)
    key, kind, meta = keys[draw(st.integers(0, len(keys) - 1))]
    if kind == "det":
        k, lo, hi = meta
        if k == "int":
            n = draw(st.integers(lo, hi))
            v = draw(st.sampled_from([n, str(n)]))
        else:
            x = draw(st.one_of(st.sampled_from([lo, hi]), st.floats(lo, hi)))
            v = draw(st.sampled_from([x, repr(float(x))]))
    elif kind == "enabled":
        v = draw(st.sampled_from([True, False, "True", "False"]))  # the texts are what `--override <key>=False` on the command line passes
    else:
        v = draw(arg_values)
    return {"proc": ps, "key": key, "kind": kind, "value": v}



@st.composite
def cli_cases(draw):
    """`pyxel run <file> --override key=value` (= pyxel.run(file, override=["key=value"])): the value always arrives as text."""
    ps = draw(processors())
    keys = [(k, kind, m) for k, kind, m in valid_keys(ps) if kind in ("arg", "enabled")]
    key, kind, meta = keys[draw(st.integers(0, len(keys) - 1))]
    if kind == "enabled":
        v = draw(st.sampled_from(["True", "False"]))
    else:
        v = draw(st.one_of(_plain, _num_text, _seq_text))
    n_more = draw(st.integers(0, 1))
    more = []
    for _ in range(n_more):  # a second --override on another key
        k2, kind2, _m = keys[draw(st.integers(0, len(keys) - 1))]
        if k2 != key and kind2 == "arg":
            more.append([k2, draw(_num_text)])
    return {"proc": ps, "key": key, "kind": kind, "value": v, "more": more}


MUTATIONS = ("typo_last", "typo_first", "typo_middle", "drop_last", "drop_middle", "dup_last", "extra_component", "undeclared_argument",
             "model_of_other_group", "absent_group", "unknown_model", "truncate_last")


@st.composite
def invalid_cases(draw):
    ps = draw(processors())
    keys = valid_keys(ps)
    key, kind, meta = keys[draw(st.integers(0, len(keys) - 1))]
    return {"proc": ps, "key": key, "kind": kind, "mutation": draw(st.sampled_from(MUTATIONS)),
            "entry": draw(st.sampled_from(["set", "obs_seq_product", "obs_seq_sequential", "obs_dask", "override", "override", "calibration"])),
            "value": draw(st.sampled_from([1, 2.5, "0.25", "7"]))}


def mutate_key(case):
    """Return an invalid key derived from a valid one, or None when the mutation does not apply."""
    parts = case["key"].split(".")
    mut = case["mutation"]
    ps = case["proc"]
    if mut == "typo_last":
        parts[-1] = parts[-1] + "y"
    elif mut == "typo_first":
        parts[0] = parts[0] + "s"
    elif mut == "typo_middle":
        parts[1] = parts[1][:-1] if len(parts[1]) > 2 else parts[1] + "x"
    elif mut == "drop_last":
        parts = parts[:-1] + ["zz_missing"]
    elif mut == "drop_middle":
        if len(parts) < 3:
            return None
        del parts[1]
    elif mut == "dup_last":
        parts = parts + [parts[-1]]
    elif mut == "extra_component":
        parts = parts[:-1] + ["extra", parts[-1]]
    elif mut == "undeclared_argument":
        if case["kind"] != "arg":
            return None
        parts[-1] = "zz_undeclared"
    elif mut == "model_of_other_group":
        if parts[0] != "pipeline":
            return None
        others = [g for g in GROUP_ORDER if g != parts[1] and g in ps["pipeline"]["groups"]]
        if not others:
            return None
        if parts[2] in [m["name"] for m in ps["pipeline"]["groups"][others[0]]]:
            return None
        parts[1] = others[0]
    elif mut == "absent_group":
        if parts[0] != "pipeline":
            return None
        absent = [g for g in GROUP_ORDER if g not in ps["pipeline"]["groups"]]
        if not absent:
            return None
        parts[1] = absent[0]
    elif mut == "unknown_model":
        if parts[0] != "pipeline":
            return None
        parts[2] = "zz_nomodel"
    elif mut == "truncate_last":
        if len(parts[-1]) < 3:
            return None
        parts[-1] = parts[-1][:-1]
    new = ".".join(parts)
    if new in {k for k, _, _ in valid_keys(ps)}:
        return None
    return new


# ------------------------------------------------------------------ harness's own literal denotation
_INT = re.compile(r"[+-]?\d+")
_FLOAT = re.compile(r"[+-]?(\d+\.?\d*|\.\d+)([eE][+-]?\d+)?")


def denote(v):
    if isinstance(v, dict) and "list" in v:
        return [denote(x) if x else x for x in v["list"]]
    if isinstance(v, dict) and "ndarray" in v:
        return np.array(v["ndarray"], dtype=float)
    if not isinstance(v, str):
        return v
    if _INT.fullmatch(v):
        return int(v)
    if _FLOAT.fullmatch(v):
        return float(v)
    if v[0] in "[(" and v[-1] in "])":
        inner = [x.strip() for x in v[1:-1].split(",") if x.strip()]
        vals = [x[1:-1] if len(x) >= 2 and x[0] == x[-1] and x[0] in "'\"" else denote(x) for x in inner]
        return tuple(vals) if v[0] == "(" else vals
    return v


def actual(v):
    if isinstance(v, dict) and "list" in v:
        return list(v["list"])
    if isinstance(v, dict) and "ndarray" in v:
        return np.array(v["ndarray"], dtype=float)
    return v


def same_value(a, b):
    if isinstance(a, np.ndarray) or isinstance(b, np.ndarray):
        return isinstance(a, np.ndarray) and isinstance(b, np.ndarray) and a.shape == b.shape and bool(np.array_equal(a, b))
    if isinstance(a, (list, tuple)) and isinstance(b, (list, tuple)):
        return len(a) == len(b) and all(same_value(x, y) for x, y in zip(a, b))
    if isinstance(a, bool) or isinstance(b, bool):
        return isinstance(a, bool) and isinstance(b, bool) and a == b
    if isinstance(a, (int, float)) and isinstance(b, (int, float)):
        return type(a) is type(b) and a == b
    return type(a) is type(b) and a == b


# ------------------------------------------------------------------ snapshots
def build_processor(ps):
    from pyxel.pipelines import Processor

    spec = simple_spec(ps["type"], row=3, col=3)
    spec["environment"]["wavelength"] = 600.0
    spec["geometry"]["pixel_scale"] = 1.5
    return Processor(detector=build_detector(spec), pipeline=build_pipeline(ps["pipeline"]))


def settings(proc, ps):
    """{valid key: value} read directly from the objects (never through Processor.get)."""
    out = {}
    for key, kind, _ in valid_keys(ps):
        parts = key.split(".")
        if kind == "det":
            out[key] = getattr(getattr(proc.detector, parts[1]), "_" + parts[2])
        else:
            grp = getattr(proc.pipeline, parts[1])
            model = next(m for m in grp.models if m.name == parts[2])
            out[key] = copy.deepcopy(model.arguments._arguments[parts[4]]) if kind == "arg" else model.enabled
    return out


def attribute_names(proc):
    """Names of all attributes of every reachable configuration object (to catch invented attributes)."""
    out = {}
    d = proc.detector
    for nm, obj in (("processor", proc), ("detector", d), ("geometry", d.geometry), ("environment", d.environment), ("characteristics", d.characteristics),
                    ("pipeline", proc.pipeline)):
        out[nm] = sorted(vars(obj))
    for g in GROUP_ORDER:
        grp = getattr(proc.pipeline, g)
        if grp is None:
            continue
        out[f"group:{g}"] = sorted(vars(grp))
        for m in grp.models:
            out[f"model:{g}.{m.name}"] = sorted(vars(m))
            out[f"args:{g}.{m.name}"] = sorted(m.arguments._arguments)
    return out


def diff_settings(a, b):
    return [k for k in a if not same_value(a[k], b[k])] + [k for k in b if k not in a]


# ------------------------------------------------------------------ bodies
def body_valid(case, rec):
    ps, key, v = case["proc"], case["key"], case["value"]
    proc = build_processor(ps)
    textual = isinstance(v, str)
    rec.cls(f"kind:{case['kind']}", f"value:{'text' if textual else type(v).__name__}", f"type:{ps['type']}")
    rec.nt(key.count(".") >= 2 and (textual or isinstance(v, dict)))
    before = settings(proc, ps)
    names_before = attribute_names(proc)
    with rec.must_not_raise("valid_key_refused"):
        rec.check(proc.has(key) is True, "has_false_for_valid_key", key)
        proc.set(key, actual(v))
        want = denote(v)
        if case["kind"] == "enabled" and textual:
            want = v == "True"
        after = settings(proc, ps)
        changed = diff_settings(before, after)
        rec.check(same_value(after[key], want), "value_not_assigned_as_denoted", f"{key} <- {v!r}: holds {after[key]!r}, denotes {want!r}")
        others = [k for k in changed if k != key]
        rec.check(not others, "other_settings_changed", f"{key} <- {v!r} also changed {others}")
        got = proc.get(key)
        rec.check(same_value(got, want), "get_differs_from_assigned", f"{key}: get returns {got!r}, assigned {want!r}")
        rec.check(attribute_names(proc) == names_before, "attribute_invented", f"{key}")



def body_cli(case, rec):
    """The override given on the command line reaches exactly the addressed setting, converted to what the text denotes."""
    import pyxel
    from vlib import pyx
    from vlib.gen_pipeline import reference_calls
    from vprobes import models as P

    ps = case["proc"]
    rec.cls(f"cli:{case['kind']}", f"cli:overrides:{1 + len(case['more'])}")
    rec.nt()
    spec = {"detector": simple_spec(ps["type"], row=3, col=3), "pipeline": copy.deepcopy(ps["pipeline"]), "mode": {"kind": "exposure"}, "readout": {"times": [1.0]}}
    with rec.must_not_raise("harness_or_setup_failed"):
        pyx.build(spec, render="yaml", tmp=rec.tmp)  # writes <tmp>/config.yaml and checks that it loads
    overrides = [[case["key"], case["value"]]] + [list(x) for x in case["more"]]
    # reference: the configured pipeline with exactly the addressed settings replaced by what the texts denote
    want = copy.deepcopy(ps["pipeline"])
    for key, text in overrides:
        parts = key.split(".")
        model = next(m for m in want["groups"][parts[1]] if m["name"] == parts[2])
        if parts[3] == "enabled":
            model["enabled"] = text == "True"
        else:
            model["arguments"][parts[4]] = denote(text)
    P.reset()
    with rec.must_not_raise("valid_override_refused"):
        with pyx.scheduler("synchronous", 1):
            pyxel.run(rec.tmp / "config.yaml", override=[f"{k}={t}" for k, t in overrides])
        got = [r["kw"] for r in P.TRACE if "kw" in r]
        ref = [c["kw"] for c in reference_calls(want, 1)]
        ok = len(got) == len(ref) and all(set(g) == set(r) and all(same_value(g[k], r[k]) for k in r) for g, r in zip(got, ref))
        rec.check(ok, "override_not_applied_as_denoted", lambda: f"--override {overrides}: models received {got}, expected {ref}")


def body_invalid(case, rec):
    import pyxel
    from pyxel.exposure import Exposure, Readout
    from pyxel.observation import Observation, ParameterValues
    from vlib.pyx import scheduler
    from vprobes import models as P

    ps = case["proc"]
    bad = mutate_key(case)
    if bad is None:
        rec.exclude("mutation_not_applicable")
        return
    entry = case["entry"]
    rec.cls(f"mutation:{case['mutation']}", f"entry:{entry}")
    rec.nt()
    proc = build_processor(ps)
    before, names_before = settings(proc, ps), attribute_names(proc)
    P.reset()
    try:
        h = proc.has(bad)
    except Exception:  # noqa: BLE001
        h = False
    rec.check(h is False, "has_true_for_invalid_key", f"{bad}")
    v = case["value"]

    def go():
        if entry == "set":
            proc.set(bad, v)
        elif entry == "override":
            pyxel.run_mode(mode=Exposure(readout=Readout(times=[1.0])), detector=proc.detector, pipeline=proc.pipeline, override_dct={bad: v})
        elif entry == "calibration":
            from pyxel.calibration import Algorithm, Calibration
            from pyxel.pipelines import FitnessFunction

            np.save(rec.tmp / "target.npy", np.zeros((3, 3)))
            cal = Calibration(target_data_path=[str(rec.tmp / "target.npy")], fitness_function=FitnessFunction("pyxel.calibration.fitness.sum_of_abs_residuals"),
                              algorithm=Algorithm(type="sade", generations=1, population_size=8),
                              parameters=[ParameterValues(key=bad, values="_", boundaries=(0.1, 0.9))], result_type="pixel",
                              target_fit_range=(0, 3, 0, 3), result_fit_range=(0, 3, 0, 3), pygmo_seed=1)
            with scheduler("synchronous"):
                pyxel.run_mode(mode=cal, detector=proc.detector, pipeline=proc.pipeline, with_inherited_coords=True)
        else:
            mode = "sequential" if entry == "obs_seq_sequential" else "product"
            obs = Observation(parameters=[ParameterValues(key=bad, values=[v, 3])], readout=Readout(times=[1.0]), mode=mode, with_dask=entry == "obs_dask")
            with scheduler("synchronous"):
                res = pyxel.run_mode(mode=obs, detector=proc.detector, pipeline=proc.pipeline, with_inherited_coords=True)
                if entry == "obs_dask":
                    res.compute()

    exc = rec.raises(f"invalid_key_accepted:{entry}", go, detail=f"{bad} (from {case['key']} by {case['mutation']})")
    rec.check(not P.TRACE, f"model_ran_with_invalid_key:{entry}", f"{bad}: {len(P.TRACE)} model calls; error {exc!r}"[:300])
    after, names_after = settings(proc, ps), attribute_names(proc)
    rec.check(not diff_settings(before, after), f"settings_changed_by_invalid_key:{entry}", f"{bad}: {diff_settings(before, after)}")
    if names_after != names_before:
        inv = {k: sorted(set(names_after.get(k, [])) - set(names_before.get(k, []))) for k in names_after if names_after.get(k) != names_before.get(k)}
        rec.fail(f"attribute_invented:{entry}", f"{bad}: new attributes {inv}")


def body_disabled(case, rec):
    """Sweeping an argument of a disabled model (or an undeclared one) is an error, not a silent no-op."""
    import pyxel
    from pyxel.exposure import Readout
    from pyxel.observation import Observation, ParameterValues
    from vlib.pyx import scheduler
    from vprobes import models as P

    ps = case["proc"]
    keys = [(k, m) for k, kind, m in valid_keys(ps) if kind == "arg" and m["enabled"] is False and not k.endswith(".tag")]
    if not keys:
        rec.exclude("no_disabled_model")
        return
    def _twin_enabled(k):
        nm = k.split(".")[2]
        return any(m["name"] == nm and m["enabled"] for g, ms in ps["pipeline"]["groups"].items() if g != k.split(".")[1] for m in ms)

    keys.sort(key=lambda km: not _twin_enabled(km[0]))
    key = keys[0][0]
    rec.nt()
    rec.cls("disabled_model_argument", f"entry:{case['entry']}", "same_name_enabled_elsewhere" if _twin_enabled(key) else "unique_name")
    proc = build_processor(ps)
    P.reset()

    def go():
        obs = Observation(parameters=[ParameterValues(key=key, values=[1, 2])], readout=Readout(times=[1.0]),
                          mode="sequential" if case["entry"] == "obs_seq_sequential" else "product", with_dask=case["entry"] == "obs_dask")
        with scheduler("synchronous"):
            r = pyxel.run_mode(mode=obs, detector=proc.detector, pipeline=proc.pipeline, with_inherited_coords=True)
            if case["entry"] == "obs_dask":
                r.compute()

    rec.raises("disabled_model_argument_swept_silently", go, detail=key)
    rec.check(not P.TRACE, "model_ran_with_invalid_key:disabled", f"{key}: {len(P.TRACE)} calls")


# ------------------------------------------------------------------ keys into mapping- / list-valued arguments, over a history of processor copies
NESTED_LEAVES = ("cfgd.a", "cfgd.b.c", "lay.0.g", "lay.1.g")


@st.composite
def nested_cases(draw):
    """1..2 models with a mapping-valued and a list-of-mappings argument; a history of assignments and copies over a pool of processors."""
    groups, models = {}, []
    for i in range(draw(st.integers(1, 2))):
        g = draw(st.sampled_from([x for x in GROUP_ORDER if x not in groups]))
        nm = f"nm{i}"
        groups[g] = [{"name": nm, "func": "vprobes.models.trace", "enabled": True,
                      "arguments": {"tag": nm, "plain": i, "cfgd": {"a": 1 + i, "b": {"c": 2 + i}}, "lay": [{"g": 10 + i}, {"g": 20 + i}]}}]
        models.append((g, nm))
    keys = [f"pipeline.{g}.{nm}.arguments.{leaf}" for g, nm in models for leaf in NESTED_LEAVES]
    ops, npool = [], 1
    for _ in range(draw(st.integers(2, 8))):
        how = draw(st.sampled_from(["set", "set", "replace", "create_new", "deepcopy", "bad_set", "bad_replace"]))
        op = {"how": how, "on": draw(st.integers(0, npool - 1))}
        if how != "deepcopy":
            op["key"], op["value"] = draw(st.sampled_from(keys)), draw(st.integers(100, 999))
        if how.startswith("bad_"):
            # a misspelt / truncated / wrong-case last component inside the mapping (never an existing entry)
            head, last = op["key"].rsplit(".", 1)
            op["key"] = head + "." + draw(st.sampled_from([last + "x", last.upper() if last.upper() != last else last + "_", "x" + last, last + last]))
        if how not in ("set", "bad_set", "bad_replace"):
            npool += 1
        ops.append(op)
    return {"type": draw(st.sampled_from(["CCD", "CMOS"])), "pipeline": {"groups": groups, "yaml_perm": 0}, "keys": keys, "ops": ops}


def _nested_read(proc, key):
    """Read a nested leaf straight from the objects (never through Processor.get)."""
    parts = key.split(".")
    model = next(m for m in getattr(proc.pipeline, parts[1]).models if m.name == parts[2])
    obj = model.arguments._arguments[parts[4]]
    for comp in parts[5:]:
        obj = obj[int(comp)] if isinstance(obj, list) else obj[comp]
    return obj


def body_nested(case, rec):
    from pyxel.observation.misc import create_new_processor

    keys = case["keys"]
    pool = [build_processor({"type": case["type"], "pipeline": case["pipeline"]})]
    model = [{k: _nested_read(pool[0], k) for k in keys}]
    rec.cls(f"nested:pool_ops:{len(case['ops'])}")
    rec.nt(any(o["how"] != "set" for o in case["ops"]) and any(o["how"] == "set" for o in case["ops"]))
    for i, op in enumerate(case["ops"]):
        how, j = op["how"], op["on"]
        where = f"op#{i} {how} on processor {j}" + (f" {op['key']} <- {op['value']}" if "key" in op else "")
        rec.cls(f"nested:{how}")
        ok = False
        if how.startswith("bad_"):
            rec.cls("nested:invalid_key")
            try:
                if how == "bad_set":
                    pool[j].set(op["key"], op["value"])
                else:
                    pool[j].replace({op["key"]: op["value"]})
                rec.fail(f"invalid_nested_key_accepted[{how}]", f"{where}: no error")
            except Exception:  # noqa: BLE001
                pass
            ok = True
        with rec.must_not_raise(f"valid_nested_key_refused[{how}]"):
            if how.startswith("bad_"):
                pass
            elif how == "set":
                rec.check(pool[j].has(op["key"]) is True, "has_false_for_valid_key", where)
                pool[j].set(op["key"], op["value"])
                model[j][op["key"]] = op["value"]
                got = pool[j].get(op["key"])
                rec.check(same_value(got, op["value"]), "get_differs_from_assigned", f"{where}: get returns {got!r}")
            elif how == "deepcopy":
                pool.append(copy.deepcopy(pool[j]))
                model.append(dict(model[j]))
            else:
                new = pool[j].replace({op["key"]: op["value"]}) if how == "replace" else create_new_processor(pool[j], {op["key"]: op["value"]})
                pool.append(new)
                model.append(dict(model[j], **{op["key"]: op["value"]}))
            ok = True
        if not ok:
            return
        for n, proc in enumerate(pool):
            real = {k: _nested_read(proc, k) for k in keys}
            bad = [k for k in keys if not same_value(real[k], model[n][k])]
            if not rec.check(not bad, "other_settings_changed" if n != j or how != "set" else "value_not_assigned_as_denoted",
                             f"{where}: processor {n} holds {[(k.split('arguments.')[1], real[k]) for k in bad]}, expected {[(k.split('arguments.')[1], model[n][k]) for k in bad]}"):
                return


PARTS = {"valid": body_valid, "invalid": body_invalid, "disabled": body_disabled, "nested": body_nested, "command_line": body_cli}


def plan(tier):
    q = tier == "quick"
    return [
        Part(name="valid", kind="gen", strategy=valid_cases, examples=500 if q else 3000),
        Part(name="invalid", kind="gen", strategy=invalid_cases, examples=200 if q else 1500),
        Part(name="disabled", kind="gen", strategy=invalid_cases, examples=40 if q else 300),
        Part(name="nested", kind="gen", strategy=nested_cases, examples=150 if q else 1000),
        Part(name="command_line", kind="gen", strategy=cli_cases, examples=40 if q else 300),
    ]
