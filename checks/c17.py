"""C17 — splitting an exposure into more readouts does not change collected charge."""

from __future__ import annotations

import numpy as np
from hypothesis import strategies as st

from vlib import pyx
from vlib.gen_detector import simple_spec
from vlib.runner import Part

PROPERTY = "C17"
LEVEL = "exploration"
RULE = (
    "Hypothesis generates an exposure interval [S, E] (S negative/zero/positive), a partition into 1..12 readouts by "
    "generated cut points, a non-empty subset of the deterministic flux-integrating library models (uniform / rectangular "
    "/ elliptic illumination, load_image, stripe_pattern, load_charge, noise-free dark_current, expectation-value "
    "simple_conversion, simple_collection) with generated levels, time scales, offsets and files, and a geometry 2..8. "
    "Metamorphic oracle: non-destructive final pixel == single-readout [S, E] pixel; destructive: frame_i/duration_i "
    "constant and scaling all intervals by lambda scales every frame by lambda. Non-trivial: >=2 readouts of unequal "
    "length and >=2 flux models; distinct by canonical JSON."
)
ASSUMPTIONS = ["relative tolerance 1e-12 x number of readouts (floating-point summation order differs between partitions)",
               "stripe_pattern is only used on detectors with even dimensions (its slicing needs them)"]
SHARDS = {"quick": 8, "thorough": 16}


@st.composite
def cases(draw):
    rows, cols = draw(st.integers(2, 8)), draw(st.integers(2, 8))
    start = draw(st.sampled_from([0.0, 0.0, 0.5, 3.0, -2.0, -0.75, 10.0]))
    duration = draw(st.one_of(st.integers(1, 40).map(lambda k: k * 0.25), st.floats(0.01, 100.0)))
    k = draw(st.integers(1, 12))
    cuts = sorted(set(draw(st.lists(st.floats(0.01, 0.99), min_size=k - 1, max_size=k - 1))))
    models = []
    n_flux = draw(st.integers(1, 4))
    kinds = draw(st.lists(st.sampled_from(["uniform", "rectangular", "elliptic", "load_image", "stripes", "load_charge", "dark_current"]),
                          min_size=n_flux, max_size=n_flux, unique=True))
    ts = st.sampled_from([1.0, 1.0, 0.001, 2.5, 60.0])
    lvl = st.one_of(st.integers(1, 5000).map(float), st.floats(0.01, 1e5))
    for kd in kinds:
        if kd == "uniform":
            models.append({"kind": kd, "level": draw(lvl), "time_scale": draw(ts)})
        elif kd in ("rectangular", "elliptic"):
            models.append({"kind": kd, "level": draw(lvl), "time_scale": draw(ts),
                           "object_size": [draw(st.integers(1, rows)), draw(st.integers(1, cols))],
                           "object_center": [draw(st.integers(0, rows - 1)), draw(st.integers(0, cols - 1))]})
        elif kd == "load_image":
            models.append({"kind": kd, "time_scale": draw(ts), "multiplier": draw(st.sampled_from([1.0, 0.5, 3.0])),
                           "position": [draw(st.integers(0, rows - 1)), draw(st.integers(0, cols - 1))],
                           "img_seed": draw(st.integers(0, 1000)), "img_shape": [draw(st.integers(1, 9)), draw(st.integers(1, 9))],
                           # the non-default option: the file holds digital numbers that are converted to photons with the detector's gain
                           "bit_resolution": draw(st.sampled_from([None, None, 8, 16]))})
        elif kd == "stripes":
            if rows % 2 or cols % 2:
                models.append({"kind": "uniform", "level": draw(lvl), "time_scale": draw(ts)})
            else:
                per = 2 * draw(st.integers(1, max(1, max(rows, cols))))
                models.append({"kind": kd, "period": per, "level": draw(lvl), "startwith": draw(st.integers(0, 1)), "time_scale": draw(ts)})
        elif kd == "load_charge":
            models.append({"kind": kd, "time_scale": draw(ts), "img_seed": draw(st.integers(0, 1000))})
        elif kd == "dark_current":
            models.append({"kind": kd, "figure_of_merit": draw(st.floats(0.01, 10.0)), "temperature": draw(st.sampled_from([150.0, 200.0, 273.0, 300.0]))})
    regular = None
    if draw(st.sampled_from([False, False, True])):
        # evenly spaced readouts whose first interval (from the start time) differs from the sampling period
        regular = {"k": draw(st.integers(3, 10)), "first_frac": draw(st.sampled_from([0.05, 0.1, 0.25, 0.5, 0.8]))}
    return {"regular": regular, "shape": [rows, cols], "start": start, "duration": duration, "cuts": cuts, "models": models,
            "qe": draw(st.sampled_from([None, 1.0, 0.5, 0.123])), "lam": draw(st.sampled_from([2.0, 0.5, 3.7, 10.0])),
            "det_type": draw(st.sampled_from(["CCD", "CMOS", "MKID", "APD"])),
            # every exposure of the case runs on objects that have already been through the same exposure once
            "used_detector": draw(st.sampled_from([False, False, True]))}


def _times(start, duration, cuts):
    end = start + duration
    times = [start + c * duration for c in cuts] + [end]
    # readouts closer together than the resolution of a double at this magnitude are not a sensible schedule
    # (their absolute-time labels would coincide): keep cut points at least 1e-6 of the duration apart
    kept = []
    for t in times:
        if t > start + 1e-6 * duration and (not kept or t > kept[-1] + 1e-6 * duration):
            kept.append(t)
    times = kept
    if times[-1] != end:
        times.append(end)
    # readout times must be non-zero: drop an intermediate zero, shift is not allowed (E and S are fixed)
    times = [t for t in times[:-1] if t != 0.0] + [times[-1]]
    return times


def _pipeline(case, tmp):
    P = "pyxel.models."
    rows, cols = case["shape"]
    photon, charge = [], []
    for i, m in enumerate(case["models"]):
        kd = m["kind"]
        if kd in ("uniform", "rectangular", "elliptic"):
            args = {"level": m["level"], "option": kd, "time_scale": m["time_scale"]}
            if kd != "uniform":
                args["object_size"], args["object_center"] = m["object_size"], m["object_center"]
            photon.append({"name": f"illum{i}", "func": P + "photon_collection.illumination", "enabled": True, "arguments": args})
        elif kd == "load_image":
            rng = np.random.RandomState(m["img_seed"])
            path = tmp / f"img{i}.npy"
            np.save(path, rng.uniform(0.0, 100.0, size=tuple(m["img_shape"])))
            photon.append({"name": f"img{i}", "func": P + "photon_collection.load_image", "enabled": True,
                           "arguments": dict({"image_file": str(path), "position": m["position"], "multiplier": m["multiplier"], "time_scale": m["time_scale"]},
                                             **({"convert_to_photons": True, "bit_resolution": m["bit_resolution"]} if m.get("bit_resolution") else {}))})
        elif kd == "stripes":
            photon.append({"name": f"stripes{i}", "func": P + "photon_collection.stripe_pattern", "enabled": True,
                           "arguments": {"period": m["period"], "level": m["level"], "angle": 0, "startwith": m["startwith"], "time_scale": m["time_scale"]}})
        elif kd == "load_charge":
            rng = np.random.RandomState(m["img_seed"])
            path = tmp / f"chg{i}.npy"
            np.save(path, rng.uniform(0.0, 50.0, size=(rows, cols)))
            charge.append({"name": f"chg{i}", "func": P + "charge_generation.load_charge", "enabled": True,
                           "arguments": {"filename": str(path), "time_scale": m["time_scale"]}})
        elif kd == "dark_current":
            charge.append({"name": f"dc{i}", "func": P + "charge_generation.dark_current", "enabled": True,
                           "arguments": {"figure_of_merit": m["figure_of_merit"], "temporal_noise": False}})
    if photon:
        conv = {"binomial_sampling": False}
        if case["qe"] is not None:
            conv["quantum_efficiency"] = case["qe"]
        charge.insert(0, {"name": "conv", "func": P + "charge_generation.simple_conversion", "enabled": True, "arguments": conv})
    groups = {"charge_collection": [{"name": "collect", "func": P + "charge_collection.simple_collection", "enabled": True, "arguments": {}}]}
    if photon:
        groups["photon_collection"] = photon
    if charge:
        groups["charge_generation"] = charge
    return {"groups": groups, "yaml_perm": 2}


def _run(case, tmp, times, nd, rec, tag):
    det = simple_spec(case["det_type"], row=case["shape"][0], col=case["shape"][1])
    temps = [m["temperature"] for m in case["models"] if m["kind"] == "dark_current"]
    if temps:
        det["environment"]["temperature"] = temps[0]
    spec = {"detector": det, "pipeline": _pipeline(case, tmp), "mode": {"kind": "exposure"},
            "readout": {"times": times, "start_time": case["start"]}, "non_destructive": nd}
    res = None
    with rec.must_not_raise(f"run_failed[{tag}]"):
        cfg = pyx.build(spec)
        if case.get("used_detector"):  # the detector (and pipeline, mode) objects have already been through this exposure once
            pyx.run(cfg, with_inherited_coords=True)
        res = pyx.run(cfg, with_inherited_coords=True)
    if res is None:
        return None
    return np.asarray(res["/bucket/pixel"].values, dtype=float)


def _close(a, b, n):
    scale = max(float(np.max(np.abs(a))), float(np.max(np.abs(b))), 1e-300)
    return bool(np.all(np.abs(a - b) <= 1e-12 * n * scale))


def body(case, rec):
    start, dur = case["start"], case["duration"]
    if start + dur == 0.0:  # the end of the exposure must be a valid (non-zero) readout time
        dur = dur * 1.5
    times = _times(start, dur, case["cuts"])
    reg = case.get("regular")
    if reg:
        first = reg["first_frac"] * dur
        period = (dur - first) / (reg["k"] - 1)
        times = [start + first + i * period for i in range(reg["k"] - 1)] + [start + dur]
        if any(t == 0.0 for t in times) or any(b <= a for a, b in zip([start] + times, times)):
            times = _times(start, dur, case["cuts"])
            reg = None
    n = len(times)
    steps = np.diff([start] + times)
    unequal = n >= 2 and (max(steps) - min(steps)) > 1e-9 * dur
    kinds = [m["kind"] for m in case["models"]]
    rec.cls(*[f"model:{k}" for k in kinds], f"n:{min(n, 6)}{'+' if n > 6 else ''}", "partition:regular" if reg else "partition:random")
    rec.nt(unequal and len(kinds) >= 2)
    rec.cls("detector_used_before" if case.get("used_detector") else "fresh_detector")
    single = [times[-1]]
    # ---- non-destructive: the final accumulated charge depends only on S and E
    px_p = _run(case, rec.tmp, times, True, rec, "nd-partition")
    px_1 = _run(case, rec.tmp, single, True, rec, "nd-single")
    if px_p is not None and px_1 is not None:
        if not np.any(px_1 != 0):
            rec.cls("vacuous:collects_nothing")  # e.g. an elliptic spot that misses every pixel centre
        a, b = px_p[-1], px_1[-1]
        rec.check(_close(a, b, n), "split_changes_collected_charge",
                  lambda: f"{n} readouts {times} from start {start}: max rel diff {np.max(np.abs(a - b)) / max(np.max(np.abs(b)), 1e-300):.3e}; partition {a.ravel()[:3]} single {b.ravel()[:3]}")
        # and every intermediate readout holds the charge of [S, t_i]: monotone, proportional to elapsed time
        el = np.array(times) - start
        ref = b / el[-1]
        for i in range(n):
            rec.check(_close(px_p[i], ref * el[i], n), "intermediate_readout_not_proportional",
                      lambda i=i: f"readout {i} at t={times[i]}: {px_p[i].ravel()[:3]} expected {(ref * el[i]).ravel()[:3]}")
    # ---- destructive: each frame proportional to its own duration; scaling intervals scales frames
    fr = _run(case, rec.tmp, times, False, rec, "destructive")
    if fr is not None:
        rate0 = fr[0] / steps[0]
        for i in range(n):
            rec.check(_close(fr[i] / steps[i], rate0, n), "frame_not_proportional_to_duration",
                      lambda i=i: f"frame {i} duration {steps[i]}: rate {(fr[i] / steps[i]).ravel()[:3]} vs frame 0 rate {rate0.ravel()[:3]}")
        lam = case["lam"]
        times_l = [start + lam * (t - start) for t in times]
        if all(t != 0.0 for t in times_l) and all(b > a for a, b in zip([start] + times_l, times_l)):
            fr_l = _run(case, rec.tmp, times_l, False, rec, "destructive-scaled")
            if fr_l is not None:
                rec.check(_close(fr_l, fr * lam, n), "scaling_intervals_does_not_scale_charge",
                          lambda: f"lambda={lam}: {fr_l.ravel()[:3]} vs {(fr * lam).ravel()[:3]}")
        else:
            rec.exclude("scaled_schedule_has_zero_time")


PARTS = {"split": body}


def plan(tier):
    return [Part(name="split", kind="gen", strategy=cases, examples=100 if tier == "quick" else 600)]
