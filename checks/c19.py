"""C19 — output files are complete, correctly attributed and never clobbered (generated histories, harness-owned clock)."""

from __future__ import annotations

import copy
import hashlib
import os
import threading
from pathlib import Path

import numpy as np
from hypothesis import strategies as st

from vlib import pyx
from vlib.gen_detector import simple_spec
from vlib.gen_paramspace import KEYS, echo_pipeline
from vlib.runner import Part

PROPERTY = "C19"
LEVEL = "exploration"
RULE = (
    "Hypothesis generates histories of 1..6 simulation starts into one parent folder: each start is an exposure (1..3 steps), "
    "a sequential or a dask observation (1..2 swept parameters) with a generated save list over {photon, pixel, signal, image, "
    "charge} x {fits, npy} (+ jpg for image) and optionally a custom_dir_name; the wall clock of pyxel.outputs is replaced by "
    "a harness-owned clock whose timestamps are generated (equal or increasing), some starts run concurrently in threads "
    "released by a barrier, and the parent folder is pre-populated with directories and a plain file carrying the next "
    "candidate names and with foreign files. A quarter of the sequential starts are started a second time on the same objects after their save list was replaced. Oracle: every start gets a folder that did not exist before and is distinct; a "
    "content hash of everything that pre-existed is unchanged; every reported file exists and - for fits/npy - reads back "
    "bit-identical to the bucket of the run with the same label; reported files = buckets x formats x runs, no duplicates. "
    "Part 'legacy_exposure': pyxel.exposure_mode with 1..14 readouts and a save list over {pixel, signal, image} x {npy, fits, txt}: exactly one "
    "auto-numbered file per bucket, format and readout, file <n> holding readout <n>. Non-trivial: >=2 starts with the same timestamp or a pre-existing colliding name; distinct by canonical JSON."
)
ASSUMPTIONS = ["jpg/jpeg are lossy: existence only", "threads (not processes) for concurrent starts in the quick tier; the clock is frozen by the harness, so 'same second' is constructed"]
SHARDS = {"quick": 8, "thorough": 16}
BUCKETS = ("photon", "pixel", "signal", "image", "charge")
from vlib.gen_paramspace import expected_pixel as _expected_pixel, full_state as _full_state  # noqa: E402

PIXEL_BASE = _expected_pixel(_full_state({}))  # the echo pipeline's pixel value for the configured defaults


@st.composite
def starts(draw):
    kind = draw(st.sampled_from(["exposure", "exposure", "obs_seq", "obs_dask"]))
    buckets = draw(st.lists(st.sampled_from(BUCKETS), min_size=1, max_size=3, unique=True))
    save = []
    for b in buckets:
        fm = draw(st.lists(st.sampled_from(["fits", "npy"] + (["jpg"] if b == "image" else [])), min_size=1, max_size=2, unique=True))
        save.append({f"detector.{b}.array": fm})
    s = {"kind": kind, "save": save, "steps": draw(st.integers(1, 3)), "custom_dir": draw(st.sampled_from(["", "", "mysim_"])),
         "tick": draw(st.integers(0, 2)), "level0": draw(st.integers(1, 30)),
         # a raw unsigned 16-bit FITS frame is loaded first and its header kept on the detector (include_header: true)
         "raw_header": draw(st.sampled_from([False, False, False, True]))}
    if draw(st.sampled_from([False, False, False, True])):
        # the same configuration objects are started a second time after the save list of their outputs object was replaced
        b2 = draw(st.lists(st.sampled_from(BUCKETS), min_size=1, max_size=2, unique=True))
        s["again_save"] = [{f"detector.{b}.array": draw(st.lists(st.sampled_from(["fits", "npy"]), min_size=1, max_size=2, unique=True))} for b in b2]
    if kind != "exposure":
        s["levels"] = draw(st.lists(st.integers(1, 40), min_size=1, max_size=3, unique=True))
        s["temps"] = draw(st.one_of(st.none(), st.lists(st.sampled_from([150.0, 250.0]), min_size=1, max_size=2, unique=True)))
    return s


@st.composite
def histories(draw):
    n = draw(st.integers(1, 6))
    return {"starts": [draw(starts()) for _ in range(n)], "concurrent": draw(st.sampled_from([0, 0, 2, 3, 4])),
            "pre_dirs": draw(st.integers(0, 3)), "pre_file": draw(st.booleans()), "foreign": draw(st.booleans())}


class FakeClock:
    """Replacement for `datetime` inside pyxel.outputs.outputs: now() returns the harness's timestamp."""

    def __init__(self):
        import datetime as _dt

        self._dt = _dt
        self.tick = 0
        self.calls = 0
        self._lock = threading.Lock()

    def now(self, tz=None):
        with self._lock:
            self.calls += 1
            return self._dt.datetime(2030, 1, 2, 3, 4, 5) + self._dt.timedelta(seconds=self.tick)

    def __getattr__(self, name):
        return getattr(self._dt.datetime, name)


def _tree_hash(root: Path) -> dict:
    out = {}
    for p in sorted(root.rglob("*")):
        rel = str(p.relative_to(root))
        out[rel] = "DIR" if p.is_dir() else hashlib.sha1(p.read_bytes()).hexdigest()
    return out


def _spec(start, parent):
    P = "vprobes.models."
    extra = {"photon_collection": [{"name": "wph", "func": P + "writer", "enabled": True,
                                    "arguments": {"plan": {"photon": {"dtype": "float64", "values": [start["level0"], start["level0"] + 1, start["level0"] + 2]},
                                                           "charge": {"dtype": "float64", "values": [5, 6, 7]}}, "tag": "wph"}}]}
    if start.get("raw_header"):
        from astropy.io import fits

        raw = Path(parent).parent / "raw_u16.fits"
        if not raw.exists():
            # (starts of one history may be prepared concurrently: write to a private name, then rename atomically)
            mine = raw.with_name(f"raw_u16_{os.getpid()}_{threading.get_ident()}.fits")
            fits.PrimaryHDU(np.arange(6, dtype=np.uint16).reshape(2, 3) + 1000).writeto(mine, overwrite=True)  # (astropy stores it with BZERO = 32768)
            os.replace(mine, raw)
        extra["photon_collection"].insert(0, {"name": "raw", "func": "pyxel.models.photon_collection.load_image", "enabled": True,
                                              "arguments": {"image_file": str(raw), "include_header": True}})
    pipe = echo_pipeline(extra)
    pipe["groups"]["charge_collection"][0]["arguments"]["level"] = start["level0"]
    outputs = {"output_folder": str(parent), "save_data_to_file": start["save"]}
    if start["custom_dir"]:
        outputs["custom_dir_name"] = start["custom_dir"]
    spec = {"detector": simple_spec("CCD", row=2, col=3), "pipeline": pipe, "readout": {"times": [float(i + 1) for i in range(start["steps"])]},
            "outputs": outputs}
    if start["kind"] == "exposure":
        spec["mode"] = {"kind": "exposure"}
    else:
        params = [{"key": KEYS[0], "values": list(start["levels"])}]
        if start.get("temps"):
            params.append({"key": KEYS[5], "values": list(start["temps"])})
        spec["mode"] = {"kind": "observation", "with_dask": start["kind"] == "obs_dask", "parameters": params}
    return spec


def _read(path: Path):
    if path.suffix == ".npy":
        return np.load(path)
    if path.suffix == ".fits":
        from astropy.io import fits

        return np.asarray(fits.getdata(path))
    return None


def _check_start(i, start, cfg, res, listing_before, rec):
    out = cfg.mode.outputs
    try:
        folder = Path(out.current_output_folder)
    except Exception as exc:  # noqa: BLE001
        rec.fail("no_output_folder", f"start {i}: {exc!r}")
        return None
    rec.check(folder.exists() and folder.is_dir(), "output_folder_missing", f"start {i}: {folder}")
    rec.check(folder.name not in listing_before, "output_folder_not_fresh", f"start {i}: {folder.name} existed before the start")
    if res is None or "output" not in res.children:
        rec.fail("no_output_node_in_result", f"start {i} ({start['kind']})")
        return folder
    n_runs = 1
    labels = [{}]
    if start["kind"] != "exposure":
        labels = [{"level": lv} for lv in start["levels"]]
        if start.get("temps"):
            labels = [dict(l, temperature=t) for l in labels for t in start["temps"]]
        n_runs = len(labels)
    seen = []
    merged = {}  # a bucket may be named by several entries of the save list: the requested formats of a bucket are their union
    for entry in start["save"]:
        (name, fmts), = entry.items()
        lst = merged.setdefault(name.split(".")[1], [])
        lst.extend(f for f in fmts if f not in lst)
    for b, fmts in merged.items():
        node = res[f"/output/{b}"] if b in res["/output"].children else None
        if not rec.check(node is not None, "bucket_without_reported_files", f"start {i}: no /output/{b}"):
            continue
        da = node["filename"]
        fdim = "extension" if "extension" in da.dims else "data_format"
        for lab in labels:
            for fm in fmts:
                try:
                    sel = da.sel({fdim: fm, **lab})
                    fname = str(np.asarray(sel.values).item()) if np.asarray(sel.values).size == 1 else None
                except Exception as exc:  # noqa: BLE001
                    rec.fail("reported_file_not_selectable", f"start {i} {b}.{fm} {lab}: {exc!r}"[:300])
                    continue
                if not rec.check(bool(fname), "reported_file_not_selectable", f"start {i} {b}.{fm} {lab}: {np.asarray(sel.values)}"):
                    continue
                p = Path(fname)
                if not p.is_absolute():
                    p = folder / p
                seen.append(str(p))
                if not rec.check(p.exists(), "reported_file_missing", f"start {i}: {p}"):
                    continue
                rec.check(p.resolve().parent == folder.resolve(), "file_outside_its_run_folder", f"start {i}: {p} not in {folder}")
                if fm in ("fits", "npy"):
                    got = _read(p)
                    want = res[f"/bucket/{b}"]
                    if lab:
                        want = want.sel(lab)
                    want = np.asarray(want.isel(time=-1).values)
                    ok = got is not None and got.shape == want.shape and bool(np.array_equal(got.astype(want.dtype) if got.dtype.kind == want.dtype.kind else got, want))
                    rec.check(ok, "file_content_differs_from_bucket", lambda got=got, want=want: f"start {i} {b}.{fm} {lab}: file {None if got is None else got.ravel()[:3]} bucket {want.ravel()[:3]}")
        n_rep = int(np.prod([da.sizes[d] for d in da.dims]))
        rec.check(n_rep == n_runs * len(fmts), "number_of_reported_files", f"start {i} {b}: {n_rep} reported for {n_runs} runs x {len(fmts)} formats")
    rec.check(len(seen) == len(set(seen)), "duplicate_reported_file", f"start {i}: {sorted(seen)[:6]}")
    return folder


def body(case, rec):
    import pyxel.outputs.outputs as OO

    parent = rec.tmp / "outputs"
    parent.mkdir()
    clock = FakeClock()
    real_dt = OO.datetime
    OO.datetime = clock
    try:
        # ---- pre-populate: colliding candidate names for the first timestamp, and foreign content
        ts = "20300102_030405"
        pre = []
        for k in range(case["pre_dirs"]):
            d = parent / (f"run_{ts}" + ("" if k == 0 else f"_{k}"))
            d.mkdir()
            (d / "detector_image.fits").write_bytes(b"PRE-EXISTING %d" % k)
            (d / "detector_pixel_array_1.npy").write_bytes(b"OLD")
            pre.append(d.name)
        if case["pre_file"]:
            (parent / f"run_{ts}_{case['pre_dirs']}").write_bytes(b"i am a plain file with the next candidate name")
        if case["foreign"]:
            (parent / "notes.txt").write_text("do not touch")
            (parent / "mysim_" ).mkdir(exist_ok=True)
        before = _tree_hash(parent)
        same_ts = sum(1 for s in case["starts"] if s["tick"] == case["starts"][0]["tick"]) >= 2
        rec.cls(f"starts:{len(case['starts'])}", f"concurrent:{case['concurrent']}", "collision" if (case["pre_dirs"] or case["pre_file"]) else "clean")
        rec.nt(len(case["starts"]) >= 2 and same_ts or bool(case["pre_dirs"] or case["pre_file"]))
        folders = []
        starts_ = case["starts"]
        i = 0
        while i < len(starts_):
            group = starts_[i:i + case["concurrent"]] if case["concurrent"] >= 2 else [starts_[i]]
            listing_before = {p.name for p in parent.iterdir()}
            results = [None] * len(group)
            cfgs = [None] * len(group)
            errs = [None] * len(group)
            if len(group) == 1:
                clock.tick = group[0]["tick"]
                try:
                    cfgs[0] = pyx.build(_spec(group[0], parent))
                    results[0] = pyx.run(cfgs[0], with_inherited_coords=True)
                except Exception as exc:  # noqa: BLE001
                    errs[0] = exc
            else:
                clock.tick = group[0]["tick"]  # all concurrent starts see the same second
                barrier = threading.Barrier(len(group), timeout=60)

                def work(k):
                    try:
                        cfgs[k] = pyx.build(_spec(dict(group[k], kind="exposure"), parent))
                        barrier.wait()
                        results[k] = pyx.run(cfgs[k], with_inherited_coords=True, sync=False, sched=None)
                    except threading.BrokenBarrierError:
                        errs[k] = "inconclusive"
                    except Exception as exc:  # noqa: BLE001
                        errs[k] = exc

                ths = [threading.Thread(target=work, args=(k,)) for k in range(len(group))]
                for t in ths:
                    t.start()
                for t in ths:
                    t.join()
            for k, st_ in enumerate(group):
                if errs[k] == "inconclusive":
                    rec.exclude("inconclusive_barrier")
                    continue
                if not rec.check(errs[k] is None, "start_failed", f"start {i + k} ({st_['kind']}): {errs[k]!r}"[:300]):
                    continue
                eff = dict(st_, kind="exposure") if len(group) > 1 else st_
                f = _check_start(i + k, eff, cfgs[k], results[k], listing_before, rec)
                if f is not None:
                    folders.append(str(f.resolve()))
            if len(group) == 1 and group[0].get("again_save") and errs[0] is None and cfgs[0] is not None:
                rec.cls("second_start_of_the_same_objects_with_another_save_list")
                listing_before = {p.name for p in parent.iterdir()}
                res2, err2 = None, None
                try:
                    cfgs[0].mode.outputs.save_data_to_file = copy.deepcopy(group[0]["again_save"])
                    res2 = pyx.run(cfgs[0], with_inherited_coords=True)
                except Exception as exc:  # noqa: BLE001
                    err2 = exc
                if rec.check(err2 is None, "start_failed", f"start {i} again with save list {group[0]['again_save']}: {err2!r}"[:300]):
                    f = _check_start(i, dict(group[0], save=group[0]["again_save"]), cfgs[0], res2, listing_before, rec)
                    if f is not None:
                        folders.append(str(f.resolve()))
            i += len(group)
        rec.check(len(folders) == len(set(folders)), "two_starts_share_a_folder", f"{folders}")
        after = _tree_hash(parent)
        changed = [k for k, v in before.items() if after.get(k) != v]
        rec.check(not changed, "pre_existing_content_modified", f"{changed[:5]}")
    finally:
        OO.datetime = real_dt


def process_cases():
    return [{"n": n, "round": r} for n in (2, 3, 4) for r in range(2)]


def body_processes(case, rec):
    """Real processes started within the same wall-clock second into one parent folder (real clock, real file system)."""
    import json as _json
    import subprocess
    import sys
    import time

    from vlib.runner import worker_env

    rec.nt()
    rec.cls(f"processes:{case['n']}")
    parent = rec.tmp / "outputs"
    parent.mkdir()
    start_at = float(int(time.time()) + 9) + 0.15  # every child is ready long before; all start just after a second boundary
    procs = [subprocess.Popen([sys.executable, "-m", "checks.c19_child", str(parent), repr(start_at), str(10 + i)], env=worker_env(), cwd=str(Path(__file__).resolve().parent.parent),
                              stdout=subprocess.PIPE, stderr=subprocess.PIPE, text=True) for i in range(case["n"])]
    outs = []
    for i, p in enumerate(procs):
        so, se = p.communicate(timeout=300)
        if not rec.check(p.returncode == 0, "concurrent_start_failed", f"process {i}: {se[-300:]}"):
            continue
        outs.append(_json.loads(so.strip().splitlines()[-1]))
    folders = [o["folder"] for o in outs]
    rec.check(len(set(folders)) == len(folders), "two_starts_share_a_folder", f"{folders}")
    for o in outs:
        p = Path(o["file"])
        if rec.check(p.exists() and str(p.parent) == o["folder"], "reported_file_missing", f"{p}"):
            rec.check(float(np.load(p).ravel()[0]) == o["pixel"], "file_content_differs_from_bucket", f"{p}: {np.load(p).ravel()[0]} vs {o['pixel']}")


# ------------------------------------------------------------------ the auto-numbered per-readout files of the older entry point
@st.composite
def legacy_cases(draw):
    """pyxel.exposure_mode (deprecated but public): one file per readout, numbered by looking at what is already in the folder."""
    buckets = draw(st.lists(st.sampled_from(["pixel", "signal", "image"]), min_size=1, max_size=2, unique=True))
    save = [{f"detector.{b}.array": draw(st.lists(st.sampled_from(["npy", "fits", "txt"]), min_size=1, max_size=2, unique=True))} for b in buckets]
    return {"steps": draw(st.one_of(st.integers(1, 9), st.integers(10, 14), st.sampled_from([10, 11, 12]))), "save": save,
            "non_destructive": draw(st.booleans()), "bump": draw(st.sampled_from([1.0, 2.5]))}


def _read_any(path):
    if path.suffix == ".npy":
        return np.load(path)
    if path.suffix == ".fits":
        from astropy.io import fits

        return np.asarray(fits.getdata(path))
    return np.loadtxt(path, ndmin=2, delimiter="|")  # pyxel writes ' | ' separated columns with 9 significant digits


def body_legacy(case, rec):
    import pyxel
    from vprobes import models as P

    P.reset()
    n = case["steps"]
    rec.cls(f"legacy:steps:{'<=9' if n <= 9 else '>=10'}", "legacy:nd" if case["non_destructive"] else "legacy:destructive")
    rec.nt(n >= 2)
    extra = {"charge_collection": [{"name": "mem", "func": "vprobes.models.memory", "enabled": True, "arguments": {"bump": case["bump"], "tag": "mem"}}]}
    out = rec.tmp / "out"
    spec = {"detector": simple_spec("CCD", row=2, col=3), "pipeline": echo_pipeline(extra), "mode": {"kind": "exposure"},
            "readout": {"times": [float(i + 1) for i in range(n)]}, "non_destructive": case["non_destructive"],
            "outputs": {"output_folder": str(out), "save_data_to_file": case["save"]}}
    ds = None
    with rec.must_not_raise("valid_outputs_refused"):
        cfg = pyx.build(spec)
        ds = pyxel.exposure_mode(exposure=cfg.mode, detector=cfg.detector, pipeline=cfg.pipeline)
    if ds is None:
        return
    folders = [d for d in out.iterdir() if d.is_dir()]
    if not rec.check(len(folders) == 1, "output_folder_count", f"{[d.name for d in folders]}"):
        return
    files = sorted(f.name for f in folders[0].iterdir() if f.suffix in (".npy", ".fits", ".txt"))
    for item in case["save"]:
        (key, fmts), = item.items()
        b = key.split(".")[1]
        for fm in fmts:
            want = [f"detector_{b}_array_{i + 1}.{fm}" for i in range(n)]
            have = [f for f in files if f.startswith(f"detector_{b}_array_") and f.endswith("." + fm)]
            if not rec.check(sorted(have) == sorted(want), "files_missing_or_surplus", f"{b}/{fm}: {n} readouts, files {sorted(have)}"):
                continue
            for i in range(n):
                rec.sub({"file": want[i]}, True)
                got = np.asarray(_read_any(folders[0] / want[i]), dtype=float)
                ref = np.asarray(ds[b].isel(readout_time=i).values, dtype=float)
                ok = got.shape == ref.shape and (bool(np.array_equal(got, ref)) if fm != "txt" else bool(np.allclose(got, ref, rtol=1e-8, atol=0)))  # txt: 9 significant digits
                if not rec.check(ok, "file_content_differs_from_bucket", f"{want[i]} holds {got.ravel()[:3]}, readout {i} of {b} is {ref.ravel()[:3]}"):
                    break


@st.composite
def legacy_obs_cases(draw):
    """pyxel.observation_mode (deprecated but public): one numbered file per run; with dask the runs finish in an order set by delays inside a model."""
    return {"levels": draw(st.lists(st.integers(1, 40), min_size=2, max_size=5, unique=True)), "dask": draw(st.sampled_from([True, True, False])),
            "workers": draw(st.sampled_from([1, 2, 4])), "fmts": draw(st.lists(st.sampled_from(["npy", "txt", "fits"]), min_size=1, max_size=2, unique=True)),
            "delay_ms": draw(st.sampled_from([0.0, 20.0, 60.0])), "first_slowest": draw(st.booleans())}


def body_legacy_obs(case, rec):
    import warnings

    import pyxel
    from vprobes import models as P

    P.reset()
    levels = list(case["levels"])
    n = len(levels)
    rec.cls("legacy_obs:dask" if case["dask"] else "legacy_obs:sequential", f"legacy_obs:runs:{n}", f"legacy_obs:workers:{case['workers']}")
    rec.nt(case["dask"] and case["workers"] > 1 and case["delay_ms"] > 0)
    # the delay model sleeps ((|level| * 7919) % 5) * scale: make the FIRST run the slowest when asked for (its files are then written last)
    slow = [lv for lv in levels if (int(lv) * 7919) % 5 == 4]
    if case["first_slowest"] and slow:
        levels.remove(slow[0])
        levels.insert(0, slow[0])
    extra = {"photon_collection": [{"name": "slow", "func": "vprobes.models.delay", "enabled": True, "arguments": {"level": 0.0, "scale_ms": case["delay_ms"]}}]}
    out = rec.tmp / "out"
    spec = {"detector": simple_spec("CCD", row=2, col=3), "pipeline": echo_pipeline(extra), "readout": {"times": [1.0]},
            "mode": {"kind": "observation", "mode": "sequential", "with_dask": case["dask"],
                     "parameters": [{"key": "pipeline.photon_collection.slow.arguments.level", "values": [float(x) for x in levels], "enabled": True}]},
            "outputs": {"output_folder": str(out), "save_data_to_file": [{"detector.pixel.array": list(case["fmts"])}]}}
    # the echo probes do not depend on the swept level: a further probe adds 1e5 x level to the pixel bucket so that a file identifies its run
    spec["pipeline"]["groups"]["charge_collection"].append({"name": "lvl", "func": "vprobes.models.level_from_delay_model", "enabled": True, "arguments": {}})
    result = None
    with rec.must_not_raise("valid_outputs_refused"):
        cfg = pyx.build(spec)
        with pyx.scheduler("threads" if case["dask"] else "synchronous", case["workers"]), warnings.catch_warnings():
            warnings.simplefilter("ignore")
            result = pyxel.observation_mode(observation=cfg.mode, detector=cfg.detector, pipeline=cfg.pipeline)
    if result is None:
        return
    folders = [d for d in out.iterdir() if d.is_dir()]
    if not rec.check(len(folders) == 1, "output_folder_count", f"{[d.name for d in folders]}"):
        return
    for fm in case["fmts"]:
        want = [f"detector_pixel_array_{i + 1}.{fm}" for i in range(n)]
        have = sorted(f.name for f in folders[0].iterdir() if f.name.startswith("detector_pixel_array_") and f.suffix == "." + fm)
        if not rec.check(have == sorted(want), "files_missing_or_surplus", f"{fm}: {n} runs, files {have}"):
            continue
        for i in range(n):
            rec.sub({"file": want[i]}, True)
            got = np.asarray(_read_any(folders[0] / want[i]), dtype=float)
            # file <i+1> belongs to run i: its pixel carries that run's level (added by the level probe)
            rec.check(abs(got.ravel()[0] - (PIXEL_BASE + 1e5 * levels[i])) < 1.0, "file_content_differs_from_bucket",  # (txt keeps 9 digits; runs differ by 1e5)
                      f"{want[i]} holds {got.ravel()[:2]}, run {i} was made with level {levels[i]} (expected {PIXEL_BASE + 1e5 * levels[i]})")


PARTS = {"history": body, "processes": body_processes, "legacy_exposure": body_legacy, "legacy_observation": body_legacy_obs}


def plan(tier):
    parts = [Part(name="history", kind="gen", strategy=histories, examples=25 if tier == "quick" else 200),
             Part(name="legacy_exposure", kind="gen", strategy=legacy_cases, examples=16 if tier == "quick" else 120),
             Part(name="legacy_observation", kind="gen", strategy=legacy_obs_cases, examples=10 if tier == "quick" else 80)]
    if tier == "thorough":
        parts.append(Part(name="processes", kind="enum", cases=process_cases, shards=3))
    return parts
