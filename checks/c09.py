"""C09 — a failing model always fails the run, with its identity attached (fault-site enumeration)."""

from __future__ import annotations

import numpy as np
from hypothesis import strategies as st

from vlib import pyx
from vlib.gen_detector import simple_spec
from vlib.gen_pipeline import GROUP_ORDER
from vlib.runner import Part, exc_chain_text

PROPERTY = "C09"
LEVEL = "fault_enumeration"
RULE = (
    "Hypothesis generates small pipelines (2..4 fault-probe models in 1..3 groups, some disabled), 1..3 readout steps, "
    "1..3 runs (temperature sweep), an exception class from {ValueError, KeyError, RuntimeError, ZeroDivisionError, OSError, "
    "TypeError, IndexError, AssertionError, StopIteration, a custom Exception subclass, a custom class with a two-argument "
    "constructor, one whose constructor arguments are not its args, a FileNotFoundError carrying errno / message / file name} and a mode (exposure, exposure with debug, sequential observation, dask observation with the synchronous "
    "and the threaded scheduler), with or without a working directory configured on the running mode; for each such configuration the fault site (run, step, enabled model position) is "
    "ENUMERATED EXHAUSTIVELY and each site is one execution. Oracle: the call (or compute) raises; the chain text carries "
    "the unique token, the injected type, group and model name and - sequentially - every parameter key and value; no result "
    "is returned; no later model / step / run executes; on the dask path the failing run's entries cannot be computed. "
    "Non-trivial: the fault is not at the very first call; distinct by (configuration, site). In addition every exception class x 6 kinds of running mode is enumerated on one fixed two-model pipeline on every run."
)
ASSUMPTIONS = [
    "calibration fault sites (initial population and evolution phase) are enumerated in part 'calibration' (see C10/C11 infrastructure)",
    "on the dask path the eager metadata run executes one element early: a fault in that element surfaces already at run_mode, which the statement allows",
]
SHARDS = {"quick": 8, "thorough": 16}
EXC = ("ValueError", "KeyError", "RuntimeError", "ZeroDivisionError", "OSError", "TypeError", "IndexError", "AssertionError",
       "StopIteration", "FloatingPointError", "OverflowError", "ArithmeticError", "LookupError", "AttributeError", "NotImplementedError",
       "MemoryError", "RecursionError", "FileNotFoundError", "TimeoutError", "UnicodeError", "BufferError", "EOFError", "ImportError",
       "NameError", "ReferenceError", "ProbeError", "TwoArgError", "FormattedArgsError", "FileNotFoundWithName")
# '*_yamlrun*': the configuration is written to a YAML file and started through pyxel.run(<file>) (what the command line does), without / with an
# 'outputs' section
MODES = ("exposure", "exposure_debug", "obs_seq", "obs_seq", "obs_dask_sync", "obs_dask_threads",
         "exposure_yamlrun", "exposure_yamlrun_outputs", "obs_seq_yamlrun", "obs_seq_yamlrun_outputs", "exposure_legacy", "obs_seq_legacy")


@st.composite
def configs(draw):
    n = draw(st.integers(2, 4))
    groups = draw(st.lists(st.sampled_from(list(GROUP_ORDER)), min_size=1, max_size=3, unique=True))
    models = []
    for i in range(n):
        models.append({"group": draw(st.sampled_from(groups)), "name": f"m{i}", "enabled": draw(st.sampled_from([True, True, True, False]))})
    if not any(m["enabled"] for m in models):
        models[0]["enabled"] = True
    mode = draw(st.sampled_from(MODES))
    return {"models": models, "steps": draw(st.integers(1, 3)), "mode": mode, "exc": draw(st.sampled_from(EXC)),
            # the failing model raises the very same exception object at every site of this configuration (as a failed future or a cached error does)
            "same_instance": draw(st.sampled_from([False, False, True])),
            # the running mode is configured with a working directory (the YAML 'working_directory:' entry)
            "workdir": draw(st.sampled_from([False, False, True])),
            "temps": draw(st.lists(st.sampled_from([50.0, 100.0, 150.0, 200.0]), min_size=1, max_size=3, unique=True)) if mode.startswith("obs") else [100.0]}


def class_by_mode_cases():
    """Every exception class in every kind of running mode, on one small fixed pipeline (the generated part pairs classes and modes at random)."""
    out = []
    for exc in EXC:
        for mode in ("exposure", "obs_seq", "obs_dask_sync", "exposure_yamlrun", "obs_seq_yamlrun", "obs_seq_legacy"):
            out.append({"models": [{"group": "charge_generation", "name": "m0", "enabled": True}, {"group": "charge_measurement", "name": "m1", "enabled": True}],
                        "steps": 1, "mode": mode, "exc": exc, "same_instance": False, "workdir": False, "temps": [50.0, 150.0] if mode.startswith("obs") else [100.0]})
    return out


def _order(models):
    """Enabled models in execution order (canonical group order, then listed order)."""
    out = []
    for g in GROUP_ORDER:
        out.extend(m for m in models if m["group"] == g and m["enabled"])
    return out


def _pipeline(cfg, site, token):
    groups = {}
    order = _order(cfg["models"])
    target = order[site["pos"]]["name"]
    for m in cfg["models"]:
        args = {"tag": m["name"], "token": token, "exc": cfg["exc"], "armed": m["name"] == target, "at_step": site["step"],
                "at_temp": cfg["temps"][site["run"]], "same_instance": bool(cfg.get("same_instance"))}
        groups.setdefault(m["group"], []).append({"name": m["name"], "func": "vprobes.models.fault2", "enabled": m["enabled"], "arguments": args})
    return {"groups": groups, "yaml_perm": 0}


def _expected_calls(cfg, site, run_order):
    """Call log up to and including the failing call, for the run order given."""
    order = _order(cfg["models"])
    calls = []
    for r in run_order:
        for s in range(cfg["steps"]):
            for p, m in enumerate(order):
                calls.append((m["name"], s, r))
                if r == cfg["temps"][site["run"]] and s == site["step"] and p == site["pos"]:
                    return calls
    return calls


def run_site(cfg, site, rec, tmp):
    from vprobes import models as P

    P.reset()
    mode = cfg["mode"]
    token = f"TOKEN-{site['run']}-{site['step']}-{site['pos']}-Zq7" if not cfg.get("same_instance") else "TOKEN-same-object-Zq7"
    order = _order(cfg["models"])
    failing = order[site["pos"]]
    times = [float(i + 1) for i in range(cfg["steps"])]
    spec = {"detector": simple_spec("CCD", row=2, col=2), "pipeline": _pipeline(cfg, site, token), "readout": {"times": times}}
    if cfg.get("workdir"):
        spec["working_directory"] = str(tmp)
    if mode.startswith("exposure"):
        spec["mode"] = {"kind": "exposure"}
    else:
        spec["mode"] = {"kind": "observation", "with_dask": mode.startswith("obs_dask"),
                        "parameters": [{"key": "detector.environment.temperature", "values": list(cfg["temps"])}]}
    where = f"{mode} exc={cfg['exc']} site={site} failing model {failing['group']}/{failing['name']}"
    result, raised, stage = None, None, None
    sched = "threads" if mode == "obs_dask_threads" else "synchronous"
    if "yamlrun" in mode:
        import pyxel

        sub = tmp / f"y{site['run']}_{site['step']}_{site['pos']}"
        sub.mkdir(exist_ok=True)
        if mode.endswith("outputs"):
            spec["outputs"] = {"output_folder": str(sub / "out"), "save_data_to_file": [{"detector.pixel.array": ["npy"]}]}
        pyx.build(spec, render="yaml", tmp=sub)  # writes <sub>/config.yaml (and checks that it loads)
        P.reset()
        try:
            with pyx.scheduler("synchronous", 1):
                result = pyxel.run(sub / "config.yaml")
            stage = "pyxel.run"
        except Exception as exc:  # noqa: BLE001
            raised, stage = exc, "pyxel.run"
        mode = "exposure" if mode.startswith("exposure") else "obs_seq"  # the remaining oracles are those of the underlying mode
    else:
        cfgobj = pyx.build(spec)
        legacy = mode.endswith("_legacy")  # pyxel.exposure_mode / pyxel.observation_mode
        if legacy:
            mode = mode[:-len("_legacy")]
        try:
            result = pyx.run(cfgobj, debug=mode == "exposure_debug", sched=sched, workers=4, compute=False,
                             with_inherited_coords=mode.startswith("obs_dask"), entry="legacy" if legacy else "run_mode")
            stage = "legacy entry" if legacy else "run_mode"
        except Exception as exc:  # noqa: BLE001
            raised, stage = exc, "legacy entry" if legacy else "run_mode"
    if raised is None and mode.startswith("obs_dask"):
        # the failure must surface at the latest when results are computed
        try:
            with pyx.scheduler(sched, 4):
                result.compute()
            rec.fail("failure_not_propagated", f"{where}: run_mode and compute() both returned normally")
        except Exception as exc:  # noqa: BLE001
            raised, stage = exc, "compute"
        # no bucket of the failing run can be obtained without the exception
        try:
            da = result["/bucket/pixel"]
            bad = da.sel(temperature=cfg["temps"][site["run"]])
            with pyx.scheduler(sched, 4):
                vals = np.asarray(bad.compute().values)
            rec.fail("failing_run_yields_data", f"{where}: pixel of the failing run computed to {vals.ravel()[:3]}")
        except Exception:  # noqa: BLE001
            pass
    elif raised is None:
        rec.fail("failure_not_propagated", f"{where}: {stage} returned a result of type {type(result).__name__}")
        return
    if raised is None:
        return
    text = exc_chain_text(raised)
    rec.check(token in text, "original_message_lost", f"{where}: token not in what the caller sees: {text[:300]}")
    want_type = {"FileNotFoundWithName": "FileNotFoundError"}.get(cfg["exc"], cfg["exc"])
    rec.check(type(raised).__name__ == want_type, "original_type_lost", f"{where}: raised {type(raised).__name__} at {stage}, injected {want_type}")
    rec.check(failing["group"] in text and failing["name"] in text, "group_or_model_not_named", f"{where}: {text[:300]}")
    if mode == "obs_seq" and "legacy" not in stage:
        # (the parameter values are attached by Observation._run_single_pipeline, the path behind pyxel.run_mode / pyxel.run which the property
        # names as its observation point; the deprecated pyxel.observation_mode never had them - asserted there: propagation, type, model identity,
        # nothing executed afterwards)
        key = "detector.environment.temperature"
        rec.check(key in text and repr(cfg["temps"][site["run"]]) in text, "parameters_of_failing_run_not_attached", f"{where}: {text[:400]}")
    # ---- nothing executes after the fault
    calls = [(r["tag"], r["step"], r["run"]) for r in P.TRACE if r.get("kind") == "fault_call"]
    if mode.startswith("exposure") or mode == "obs_seq":
        exp = _expected_calls(cfg, site, cfg["temps"])
        rec.check(calls == exp, "calls_after_or_missing_before_the_fault", f"{where}: executed {calls[-4:]} (n={len(calls)}), expected to stop after {exp[-2:]} (n={len(exp)})")
    else:
        # per run: a failing run stops at the fault; other runs are complete or absent (never partial beyond the reference)
        by_run = {}
        for c in calls:
            by_run.setdefault(c[2], []).append(c)
        t_bad = cfg["temps"][site["run"]]
        full = [(m["name"], s, None) for s in range(cfg["steps"]) for m in order]
        for t, lst in by_run.items():
            names = [(a, b) for a, b, _ in lst]
            ref_full = [(a, b) for a, b, _ in full]
            if t == t_bad:
                stop = [(a, b) for a, b, _ in _expected_calls(cfg, site, [t_bad])]
                ok = names in (stop, stop + stop)  # the metadata run may execute (and fail) the element once more
                rec.check(ok, "calls_after_or_missing_before_the_fault", f"{where}: failing run executed {names}, expected {stop}")
            else:
                ok = names in (ref_full, ref_full + ref_full)
                rec.check(ok, "calls_after_or_missing_before_the_fault", f"{where}: run {t} executed {names}")


def body(cfg, rec):
    from vprobes import models as _P

    _P.SAME_INSTANCE.clear()  # (per configuration; the sites of one configuration share the object)
    order = _order(cfg["models"])
    rec.cls(f"mode:{cfg['mode']}", f"exc:{cfg['exc']}", "same_exception_object_at_every_site" if cfg.get("same_instance") else "fresh_exception_objects",
            "working_directory_set" if cfg.get("workdir") else "no_working_directory")
    first = True
    for r in range(len(cfg["temps"])):
        for s in range(cfg["steps"]):
            for p in range(len(order)):
                site = {"run": r, "step": s, "pos": p}
                rec.sub([cfg, site], nontrivial=not first)
                first = False
                with rec.must_not_raise("harness_or_setup_failed"):
                    run_site(cfg, site, rec, rec.tmp)
                if len(rec.failures) > 8:
                    return
    rec.nt(True)


# ------------------------------------------------------------------ calibration: fault at evaluation k
def cal_site_cases():
    out = []
    for i, exc in enumerate(EXC):  # every exception class, in both phases
        for k in ((0, 9), (1, 11), (7, 8), (3, 17))[i % 4]:  # population 8: calls 0..7 = initial population, 8.. = evolution phase
            out.append({"call": k, "exc": exc, "islands": 1 if k % 2 else 2})
    return out


def body_cal(case, rec):
    import numpy as np

    from vprobes import models as P

    P.reset()
    rec.nt(case["call"] > 0)
    rec.cls("calibration:" + ("initial_population" if case["call"] < 8 else "evolution"), f"exc:{case['exc']}")
    token = f"CALTOKEN-{case['call']}-Zq7"
    np.save(rec.tmp / "target.npy", np.zeros((2, 2)))
    pipe = {"groups": {"charge_collection": [{"name": "boom", "func": "vprobes.models.fault_at_call", "enabled": True,
                                              "arguments": {"n": case["call"], "token": token, "exc": case["exc"], "tag": "boom"}}]}, "yaml_perm": 0}
    spec = {"detector": simple_spec("CCD", row=2, col=2), "pipeline": pipe,
            "mode": {"kind": "calibration", "target_data_path": [str(rec.tmp / "target.npy")],
                     "fitness_function": {"func": "pyxel.calibration.fitness.sum_of_abs_residuals"},
                     "algorithm": {"type": "sade", "generations": 2, "population_size": 8},
                     "parameters": [{"key": "detector.environment.temperature", "values": "_", "boundaries": [100.0, 200.0]}],
                     "result_type": "pixel", "target_fit_range": [0, 2, 0, 2], "result_fit_range": [0, 2, 0, 2], "pygmo_seed": 5,
                     "num_islands": case["islands"], "num_evolutions": 2}}
    result, raised = None, None
    try:
        result = pyx.run(pyx.build(spec), with_inherited_coords=True)
    except Exception as exc:  # noqa: BLE001
        raised = exc
    n_calls = len([r for r in P.TRACE if r.get("kind") == "fault_call"])
    if n_calls <= case["call"]:
        rec.exclude("fault_site_not_reached")
        return
    if not rec.check(raised is not None, "failure_not_propagated", f"calibration with a fault at evaluation {case['call']} returned {type(result).__name__}"):
        return
    text = exc_chain_text(raised)
    rec.check(token in text, "original_message_lost", f"evaluation {case['call']}: {text[:300]}")
    rec.check("charge_collection" in text and "boom" in text, "group_or_model_not_named", f"evaluation {case['call']}: {text[:300]}")


PARTS = {"sites": body, "calibration_sites": body_cal}


def plan(tier):
    return [Part(name="sites", kind="gen", strategy=configs, examples=25 if tier == "quick" else 150),
            Part(name="sites", kind="enum", cases=class_by_mode_cases, label="every_class_in_every_mode"),
            Part(name="calibration_sites", kind="enum", cases=cal_site_cases, exhaustive=False)]
