"""C16 — digitised images are bounded, monotone, saturating and never wrap."""

from __future__ import annotations

import math

import numpy as np
from hypothesis import strategies as st

from vlib.gen_detector import build_detector, simple_spec
from vlib.runner import Part

PROPERTY = "C16"
LEVEL = "exploration"
RULE = (
    "Hypothesis generates (bit resolution 4..53, voltage range - four classic ones or generated floats -, signal dtype "
    "f16/f32/f64, converter simple | SAR | noisy SAR with zero noise) and a signal vector built around sampled code-"
    "transition points vmin + k*(vmax-vmin)/(2^bits-1), each with its two float neighbours, plus interior values, values "
    "far outside the range and +-inf. In addition bits 4..12 x the four classic ranges are enumerated exhaustively over "
    "every transition point with both neighbours. Oracle: unsigned dtype wide enough, all codes in [0, 2^bits-1], codes "
    "non-decreasing in the voltage, v<=vmin -> 0 and v>=vmax -> full scale (simple ADC), noisy SAR with zero noise == SAR. "
    "Non-trivial: vmin != 0 or a transition-point input or an out-of-range input; distinct by canonical JSON."
)
ASSUMPTIONS = [
    "NaN voltages are not part of the quantified domain",
    "bits >= 54 (2^bits-1 not representable in float64) is recorded known finding K3, excluded from the main search and probed",
    "an explicitly requested data_type narrower than the resolution is the user's choice and is not asserted",
]
SHARDS = {"quick": 8, "thorough": 16}
CLASSIC = ([0.0, 1.0], [0.0, 10.0], [-5.0, 5.0], [0.1, 3.3])


@st.composite
def cases(draw, bits=st.integers(4, 53)):
    b = draw(bits)
    rng = draw(st.one_of(st.sampled_from(CLASSIC), st.tuples(st.floats(-100.0, 100.0), st.floats(1e-3, 1e3)).map(lambda t: [t[0], t[0] + t[1]])))
    K = 2**b - 1
    ks = draw(st.lists(st.one_of(st.sampled_from([0, 1, 2, K // 2, K - 2, K - 1, K]), st.integers(0, K)), min_size=1, max_size=12))
    return {
        "bits": b, "vmin": rng[0], "vmax": rng[1],
        "dtype": draw(st.sampled_from(["float64", "float64", "float32", "float16"])),
        "conv": draw(st.sampled_from(["simple", "simple", "simple", "sar", "sar_noise"])),
        "ks": ks,
        "fracs": draw(st.lists(st.floats(0.0, 1.0), max_size=6)),
        "outside": draw(st.lists(st.sampled_from([-1e30, -1e3, -1.0, 1.0, 1e3, 1e30, "inf", "-inf"]), max_size=4)),
        "data_type": draw(st.sampled_from([None, None, None, "uint64"])),
    }


def exhaustive_cases():
    return [{"bits": b, "vmin": r[0], "vmax": r[1], "dtype": "float64", "conv": c, "ks": "all", "fracs": [], "outside": [-1.0, 11.0, "inf", "-inf"], "data_type": None}
            for b in range(4, 13) for r in CLASSIC for c in ("simple", "sar")]


def k3_cases():
    return [{"bits": b, "vmin": 0.0, "vmax": 10.0, "dtype": "float64", "conv": c, "ks": [0, 1, 2**b - 1], "fracs": [0.5], "outside": [11.0], "data_type": None}
            for b in (54, 60, 63, 64) for c in ("simple", "sar")]


def _signal(case):
    vmin, vmax, b = case["vmin"], case["vmax"], case["bits"]
    K = 2**b - 1
    span = vmax - vmin
    if case["ks"] == "all":
        k = np.arange(0, K + 1, dtype=np.float64)
    else:
        k = np.array([float(x) for x in case["ks"]], dtype=np.float64)
    t = vmin + k * span / K
    vals = [t, np.nextafter(t, -np.inf), np.nextafter(t, np.inf)]
    vals.append(np.array([vmin + f * span for f in case["fracs"]], dtype=np.float64))
    out = []
    for o in case["outside"]:
        if o == "inf":
            out.append(np.inf)
        elif o == "-inf":
            out.append(-np.inf)
        else:
            out.append(vmin - abs(o) if o < 0 else vmax + abs(o))
    vals.append(np.array(out + [vmin, vmax], dtype=np.float64))
    v = np.concatenate(vals)
    with np.errstate(all="ignore"):
        v = v.astype(case["dtype"])
    return v


def body(case, rec):
    from pyxel.models.readout_electronics import sar_adc, sar_adc_with_noise, simple_adc

    b, vmin, vmax, conv = case["bits"], case["vmin"], case["vmax"], case["conv"]
    K = 2**b - 1
    sig = _signal(case)
    # the signal as the converter sees it (float16/32 inputs are what they are after the cast)
    v64 = sig.astype(np.float64)
    rec.cls(f"conv:{conv}", f"bits:{'4-12' if b <= 12 else '13-32' if b <= 32 else '33-53' if b <= 53 else '54-64'}", f"dtype:{case['dtype']}")
    rec.nt(vmin != 0.0 or bool(case["ks"]) or bool(case["outside"]))
    spec = simple_spec("CCD", row=1, col=int(sig.size), adc_bit_resolution=b, adc_voltage_range=[vmin, vmax])
    det = build_detector(spec)

    def convert(which):
        det.signal.array = sig.reshape(1, -1).copy()
        if which == "simple":
            kw = {"data_type": case["data_type"]} if case["data_type"] else {}
            simple_adc(det, **kw)
        elif which == "sar":
            sar_adc(det)
        else:
            sar_adc_with_noise(det, strengths=tuple([0.0] * b), noises=tuple([0.0] * b))
        return np.array(det.image.array, copy=True).ravel()

    img = None
    with rec.must_not_raise("conversion_failed"):
        with np.errstate(all="ignore"):
            img = convert(conv)
    if img is None:
        return
    rec.check(img.dtype.kind == "u" and img.dtype.itemsize * 8 >= b, "dtype_too_narrow_or_signed", f"{b} bits stored as {img.dtype}")
    if case["data_type"] and conv == "simple":
        rec.check(img.dtype == np.dtype(case["data_type"]), "requested_dtype_ignored", f"{img.dtype} vs {case['data_type']}")
    codes = [int(x) for x in img]
    bad = [(float(v), c) for v, c in zip(v64, codes) if not (0 <= c <= K)]
    rec.check(not bad, "code_out_of_range", f"bits={b} range=({vmin},{vmax}): (voltage, code) {bad[:3]} full scale {K}")
    order = np.argsort(v64, kind="stable")
    sc = [codes[i] for i in order]
    sv = v64[order]
    for i in range(1, len(sc)):
        if sc[i] < sc[i - 1] and sv[i] > sv[i - 1]:
            rec.fail("not_monotone", f"bits={b} range=({vmin},{vmax}) {conv}: v={sv[i - 1]!r} -> {sc[i - 1]} but v={sv[i]!r} -> {sc[i]}")
            break
    if conv == "simple":
        lo = [(float(v), c) for v, c in zip(v64, codes) if v <= vmin and c != 0]
        hi = [(float(v), c) for v, c in zip(v64, codes) if v >= vmax and c != K]
        rec.check(not lo, "below_minimum_not_zero", f"bits={b} range=({vmin},{vmax}): {lo[:3]}")
        rec.check(not hi, "above_maximum_not_full_scale", f"bits={b} range=({vmin!r},{vmax!r}): {hi[:3]} full scale {K}")
    if conv == "sar_noise":
        ref = None
        with rec.must_not_raise("conversion_failed"):
            with np.errstate(all="ignore"):
                ref = convert("sar")
        if ref is not None:
            rec.check(ref.dtype == img.dtype and bool(np.array_equal(ref, img)), "noisy_sar_with_zero_noise_differs",
                      f"bits={b}: {[(int(a), int(c)) for a, c in zip(ref, img) if a != c][:3]}")


# ------------------------------------------------------------------ "every signal frame": frames of detector-like size
def large_cases():
    out = []
    for shape in ([1100, 1000], [1025, 1024], [700, 1500], [1024, 1024]):
        for conv, bits in (("simple", 16), ("sar", 12), ("sar_noise", 12), ("sar_noise", 8)):
            out.append({"shape": shape, "conv": conv, "bits": bits, "vmin": -1.0, "vmax": 3.0, "seed": shape[0] + bits})
    # frames that are not C-contiguous in memory (a transposed frame, a Fortran-saved file): same voltages, same codes
    for shape in ([6, 9], [40, 25], [700, 1500]):
        for conv, bits in (("simple", 12), ("sar", 10), ("sar_noise", 10)):
            for order in ("F", "T"):
                out.append({"shape": shape, "conv": conv, "bits": bits, "vmin": 0.0, "vmax": 5.0, "seed": shape[1] + bits, "order": order})
    return out


def body_large(case, rec):
    from pyxel.models.readout_electronics import sar_adc, sar_adc_with_noise, simple_adc

    b, vmin, vmax, conv = case["bits"], case["vmin"], case["vmax"], case["conv"]
    K = 2**b - 1
    rows, cols = case["shape"]
    rec.cls(f"large:{conv}", f"large:pixels:{rows * cols}")
    rec.nt(rows * cols > 2**20)
    rng = np.random.RandomState(case["seed"])
    sig = rng.uniform(vmin - 0.5, vmax + 0.5, size=(rows, cols))
    sig[-1, -8:] = vmax + 1.0  # the very last pixels of the frame are above the range
    sig[0, :8] = vmin - 1.0
    det = build_detector(simple_spec("CCD", row=rows, col=cols, adc_bit_resolution=b, adc_voltage_range=[vmin, vmax]))
    if case.get("order"):
        rec.cls(f"large:memory_order:{case['order']}")

    def frame():
        if case.get("order") == "F":
            return np.asfortranarray(sig)
        if case.get("order") == "T":
            return np.ascontiguousarray(sig.T).T  # a transposed view of a C-ordered buffer
        return sig.copy()

    def convert(which):
        det.signal.array = frame()
        if which == "simple":
            simple_adc(det)
        elif which == "sar":
            sar_adc(det)
        else:
            sar_adc_with_noise(det, strengths=tuple([0.0] * b), noises=tuple([0.0] * b))
        return np.array(det.image.array, copy=True)

    img = None
    with rec.must_not_raise("conversion_failed"):
        img = convert(conv)
    if img is None:
        return
    rec.check(img.shape == sig.shape and img.dtype.kind == "u" and img.dtype.itemsize * 8 >= b, "dtype_too_narrow_or_signed", f"{img.shape} {img.dtype}")
    rec.check(int(img.max()) <= K, "code_out_of_range", f"max code {int(img.max())} full scale {K}")
    order = np.argsort(sig, axis=None, kind="stable")
    sc, sv = img.ravel()[order].astype(np.int64), sig.ravel()[order]
    drop = np.nonzero((np.diff(sc) < 0) & (np.diff(sv) > 0))[0]
    rec.check(drop.size == 0, "not_monotone", lambda: f"{conv} {rows}x{cols}: v={sv[drop[0]]!r} -> {sc[drop[0]]} but v={sv[drop[0] + 1]!r} -> {sc[drop[0] + 1]} ({drop.size} places)")
    hi, lo = img[sig >= vmax], img[sig <= vmin]
    if conv == "simple":
        rec.check(bool(np.all(hi == K)), "above_maximum_not_full_scale", lambda: f"{rows}x{cols}: {int(np.sum(hi != K))} pixels at or above the maximum are not at full scale {K}")
        rec.check(bool(np.all(lo == 0)), "below_minimum_not_zero", lambda: f"{rows}x{cols}: {int(np.sum(lo != 0))} pixels")
    if conv == "sar_noise":
        ref = None
        with rec.must_not_raise("conversion_failed"):
            ref = convert("sar")
        if ref is not None:
            diff = np.argwhere(ref != img)
            rec.check(ref.dtype == img.dtype and diff.size == 0, "noisy_sar_with_zero_noise_differs",
                      lambda: f"bits={b} {rows}x{cols}: {len(diff)} pixels differ, first at {diff[0].tolist()}: sar {int(ref[tuple(diff[0])])} noisy {int(img[tuple(diff[0])])}")


PARTS = {"adc": body, "k3_bits_ge_54": body, "large_frames": body_large}


def known_key(part, clause, case, detail):
    if case.get("bits", 0) >= 54 and clause in ("code_out_of_range", "not_monotone", "above_maximum_not_full_scale", "below_minimum_not_zero"):
        return "K3-adc-bits-ge-54"
    return None


def plan(tier):
    n = 1200 if tier == "quick" else 6000
    return [
        Part(name="adc", kind="enum", cases=exhaustive_cases, exhaustive=True, label="all_transitions_4_to_12_bits"),
        Part(name="adc", kind="gen", strategy=cases, examples=n, label="generated"),
        Part(name="k3_bits_ge_54", kind="enum", cases=k3_cases, shards=1),
        Part(name="large_frames", kind="enum", cases=large_cases),
    ]
