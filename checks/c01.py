"""C01 — enabled models run once per readout, in the fixed physical group order."""

from __future__ import annotations

import itertools
import json

from hypothesis import strategies as st

from vlib import pyx
from vlib.gen_detector import simple_spec
from vlib.gen_pipeline import GROUP_ORDER, pipeline_specs, reference_calls
from vlib.runner import Part, canon

PROPERTY = "C01"
LEVEL = "exploration"
RULE = (
    "Hypothesis generates pipeline specs (any subset of the ten groups, None/empty/1..3 models per group, enabled "
    "True/False/omitted, arbitrary nested argument dicts), 1..4 readout steps, rendering (Python objects | YAML with "
    "permuted keys) and mode (exposure debug off/on, sequential observation, dask observation, calibration); every model "
    "is a tracing probe (a third of them with declared parameters that have defaults, configured with None / falsy / other values) and the observed call list must equal the reference list exactly. Plus an exhaustive enumeration "
    "of all 45 group pairs x 3 enabled patterns x 2 renderings. Non-trivial: >=2 populated groups and (a disabled model or "
    ">=2 models in one group or >=2 steps); distinct = canonical JSON of the case."
)
ASSUMPTIONS = [
    "the canonical group order is a literal tuple copied from the property statement",
    "the dask path's eager metadata run (one extra execution of the first parameter set, no observable result) is allowed",
    "dask observation and calibration use dask's synchronous scheduler here; other schedulers are C07's subject",
]
SHARDS = {"quick": 8, "thorough": 16}


@st.composite
def cases(draw, modes=("exposure", "exposure", "exposure_debug", "obs_seq", "obs_dask", "obs_seq", "obs_dask", "calibration", "exposure_legacy", "obs_seq_legacy")):
    mode = draw(st.sampled_from(list(modes)))
    spec = draw(pipeline_specs(min_groups=0))
    steps = draw(st.integers(1, 4))
    case = {
        "pipeline": spec,
        "steps": steps,
        "render": draw(st.sampled_from(["python", "yaml"])),
        "mode": mode,
        "det_type": draw(st.sampled_from(["CCD", "CMOS", "MKID", "APD"])),
        "non_destructive": draw(st.booleans()),
    }
    for ms in spec["groups"].values():
        for m in ms or []:
            if draw(st.sampled_from([False, False, True])):
                # a model whose parameters are declared with default values, every one of them configured - with None, falsy and other values:
                # the model must receive exactly what was configured, never its own default
                val = st.sampled_from([None, None, 0, 0.0, False, "", 1.5, "abc", [1, None], {"a": None}])
                m["func"] = "vprobes.models.trace_sig"
                m["arguments"] = {"gain": draw(val), "offset": draw(val), "label": draw(val), "flag": draw(val), "opt": draw(val), "tag": m["name"]}
                case["has_declared_defaults"] = True
    entries = [(g, m) for g, ms in spec["groups"].items() if ms for m in ms]
    if entries and draw(st.sampled_from([False, False, True])):
        # the same model entry listed again in another group; in the YAML rendering it is written once and referred to by an alias (&id / *id)
        import copy as _copy

        g, m = entries[draw(st.integers(0, len(entries) - 1))]
        free = [g2 for g2 in GROUP_ORDER if g2 != g and m["name"] not in [x["name"] for x in (spec["groups"].get(g2) or [])]]
        g2 = draw(st.sampled_from(free))
        spec["groups"][g2] = list(spec["groups"].get(g2) or []) + [_copy.deepcopy(m)]
        spec["yaml_aliases"] = True
        case["has_aliased_entry"] = True
    if mode == "calibration":
        case["steps"] = 1  # a calibration with the default readout evaluates one readout per candidate
        case["pygmo_seed"] = draw(st.integers(0, 100000))
    if mode.startswith("exposure"):
        # history on the SAME pipeline object: edits applied between runs (enabled flags flipped, an argument changed)
        names = [m["name"] for ms in spec["groups"].values() if ms for m in ms]
        if names and draw(st.booleans()):
            case["reruns"] = [[{"model": draw(st.sampled_from(names)), "enabled": draw(st.booleans())} for _ in range(draw(st.integers(1, 3)))]
                              for _ in range(draw(st.integers(1, 2)))]
    if mode.startswith("obs"):
        case["temps"] = draw(st.lists(st.sampled_from([50.0, 100.0, 150.0, 200.0, 250.0]), min_size=1, max_size=3, unique=True))
    return case


def pair_cases():
    out = []
    for g1, g2 in itertools.combinations(GROUP_ORDER, 2):
        for pattern in ("both", "first_off", "second_off"):
            for render in ("python", "yaml"):
                groups = {  # deliberately listed in the *reverse* of the canonical order
                    g2: [{"name": "b", "func": "vprobes.models.trace", "enabled": pattern != "second_off", "arguments": {"tag": "b", "k": 2}}],
                    g1: [{"name": "a", "func": "vprobes.models.trace", "enabled": pattern != "first_off", "arguments": {"tag": "a", "k": 1}}],
                }
                out.append({"pipeline": {"groups": groups, "yaml_perm": -1}, "steps": 2, "render": render, "mode": "exposure",
                            "det_type": "CCD", "non_destructive": False})
    return out


def _nontrivial(case) -> bool:
    groups = case["pipeline"]["groups"]
    populated = [g for g, m in groups.items() if m]
    multi = any(len(m) >= 2 for m in groups.values() if m)
    disabled = any(mm.get("enabled") is False for m in groups.values() if m for mm in m)
    return len(populated) >= 2 and (multi or disabled or case["steps"] >= 2)


def _observed(trace):
    return [{"tag": r["tag"], "kw": r["kw"], "step": r["step"]} for r in trace]


def _strip(calls):
    return [{"tag": c["tag"], "kw": c["kw"], "step": c["step"]} for c in calls]


def body(case, rec):
    from vprobes import models as P

    P.reset()
    spec, steps, mode = case["pipeline"], case["steps"], case["mode"]
    rec.cls(f"mode:{mode}", f"render:{case['render']}", f"steps:{steps}")
    if case.get("has_aliased_entry"):
        rec.cls("yaml_alias" if case["render"] == "yaml" else "repeated_entry_python")
    if case.get("has_declared_defaults"):
        rec.cls("model_with_declared_defaults_configured_with_none_or_falsy_values")
    rec.nt(_nontrivial(case))
    ref = _strip(reference_calls(spec, steps))
    if any(mm.get("enabled") is False for m in spec["groups"].values() if m for mm in m):
        rec.cls("has_disabled")
    if any(m is None or m == [] for m in spec["groups"].values()):
        rec.cls("has_empty_group")
    times = [float(i + 1) for i in range(steps)]
    det_spec = simple_spec(case["det_type"])
    run_spec = {"detector": det_spec, "pipeline": spec, "times": times, "non_destructive": case["non_destructive"]}
    if mode.startswith("exposure"):
        run_spec["mode"] = {"kind": "exposure"}
    elif mode == "calibration":
        import numpy as np

        np.save(rec.tmp / "target.npy", np.zeros((3, 4)))
        run_spec.pop("times")
        run_spec.pop("non_destructive")
        run_spec["mode"] = {"kind": "calibration", "target_data_path": [str(rec.tmp / "target.npy")],
                            "fitness_function": {"func": "pyxel.calibration.fitness.sum_of_abs_residuals"},
                            "algorithm": {"type": "sade", "generations": 1, "population_size": 8},
                            "parameters": [{"key": "detector.environment.temperature", "values": "_", "boundaries": [100.0, 200.0]}],
                            "result_type": "pixel", "target_fit_range": [0, 3, 0, 4], "result_fit_range": [0, 3, 0, 4], "pygmo_seed": case["pygmo_seed"]}
    else:
        run_spec["mode"] = {"kind": "observation", "with_dask": mode == "obs_dask",
                            "parameters": [{"key": "detector.environment.temperature", "values": case["temps"]}]}
    debug = mode == "exposure_debug"
    result = None
    with rec.must_not_raise("run_failed"):
        cfg = pyx.build(run_spec, render=case["render"], tmp=rec.tmp)
        result = pyx.run(cfg, debug=debug, sync=True, entry="legacy" if mode.endswith("_legacy") else "run_mode")
    if result is None:
        return
    if mode.endswith("_legacy"):  # (pyxel.exposure_mode / pyxel.observation_mode: same oracles as the underlying mode)
        mode = mode[:-len("_legacy")]
    trace = list(P.TRACE)
    for r in trace:
        if r["name"] != r["tag"]:
            rec.fail("wrong_model_identity", f"model configured as {r['tag']} ran as {r['name']}")
            break
    if mode == "calibration":
        # every candidate evaluation is one whole pipeline execution on its own detector copy
        by_eval = {}
        for r in trace:
            by_eval.setdefault((r["det"], r["run"]), []).append(r)
        rec.check(len(by_eval) >= 8 or not ref, "calibration_evaluations_missing", f"{len(by_eval)} evaluations traced")
        for key, lst in by_eval.items():
            got = _observed(lst)
            n_ref = len(ref)
            ok = n_ref and len(got) % n_ref == 0 and all(canon(got[i:i + n_ref]) == canon(ref) for i in range(0, len(got), n_ref))
            rec.check(bool(ok) or not ref, "call_list_mismatch", lambda got=got: f"calibration candidate {key[1]}: " + _diff(got, ref))
            rec.check(all(100.0 - 1e-9 <= r["run"] <= 200.0 + 1e-9 for r in lst), "run_received_wrong_parameter", f"{key[1]}")
    elif mode.startswith("exposure"):
        obs = _observed(trace)
        rec.check(canon(obs) == canon(ref), "call_list_mismatch", lambda: _diff(obs, ref))
        rec.check(len({r["det"] for r in trace}) <= 1, "several_detectors_in_one_run", "")
        if debug:
            _check_debug_tree(result, spec, steps, rec)
            # debug must not change what runs: same reference list (checked above) -> equal to debug-off trace
        # ---- the same objects, edited and run again: the NEW configuration is what must execute
        import copy as _copy

        cur = _copy.deepcopy(spec)
        for stage, edits in enumerate(case.get("reruns") or []):
            rec.cls("rerun_after_edit")
            for e in edits:
                for g, ms in cur["groups"].items():
                    for m in ms or []:
                        if m["name"] == e["model"]:
                            m["enabled"] = e["enabled"]
                            getattr(cfg.pipeline, g).__getattr__(e["model"]).enabled = e["enabled"]
            P.reset()
            with rec.must_not_raise("rerun_failed"):
                pyx.run(cfg, debug=False, sync=True, entry="legacy" if case["mode"].endswith("_legacy") else "run_mode")
            obs2 = _observed(list(P.TRACE))
            ref2 = _strip(reference_calls(cur, steps))
            rec.check(canon(obs2) == canon(ref2), "call_list_mismatch_after_reconfiguration",
                      lambda obs2=obs2, ref2=ref2: f"run #{stage + 2} after edits {edits}: " + _diff(obs2, ref2))
    else:
        temps = case["temps"]
        if mode == "obs_seq":
            exp = [dict(c) for t in temps for c in ref]
            obs = _observed(trace)
            rec.check(canon(obs) == canon(exp), "call_list_mismatch", lambda: _diff(obs, exp))
            runs = [r["run"] for r in trace]
            exp_runs = [t for t in temps for _ in ref]
            rec.check(runs == exp_runs, "run_received_wrong_parameter", f"{runs[:12]} vs {exp_runs[:12]}")
        else:
            by_run = {}
            for r in trace:
                by_run.setdefault(r["run"], []).append(r)
            n_ref = len(ref)
            doubled = 0
            for t in temps:
                got = _observed(by_run.pop(t, []))
                if len(got) == 2 * n_ref and n_ref:
                    # the eager metadata run: one extra *whole* execution of one element of the space
                    doubled += 1
                    a, _b = _split_two(got, ref)
                    rec.check(a is not None, "call_list_mismatch", lambda: f"temp={t}: not two whole executions: " + _diff(got, ref + ref))
                else:
                    rec.check(canon(got) == canon(ref), "call_list_mismatch", lambda: f"temp={t}: " + _diff(got, ref))
            rec.check(doubled <= 1, "call_list_mismatch", f"{doubled} runs were executed twice (only the single metadata run is allowed)")
            rec.check(not by_run, "unexpected_run", f"runs with parameter values never requested: {list(by_run)}")


def _split_two(got, ref):
    """got must be the concatenation of two reference executions (synchronous scheduler)."""
    n = len(ref)
    if canon(got[:n]) == canon(ref) and canon(got[n:]) == canon(ref):
        return got[:n], got[n:]
    return None, None


def _diff(obs, ref):
    for i, (a, b) in enumerate(zip(obs, ref)):
        if canon(a) != canon(b):
            return f"first difference at call #{i}: observed {json.dumps(a)[:200]} expected {json.dumps(b)[:200]} (lens {len(obs)}/{len(ref)})"
    return f"length differs: observed {len(obs)} calls, expected {len(ref)}; tail observed {json.dumps(obs[len(ref):][:3])[:300]} expected {json.dumps(ref[len(obs):][:3])[:300]}"


def _check_debug_tree(result, spec, steps, rec):
    try:
        inter = result["/intermediate"] if "intermediate" in result.children else None
    except Exception:  # noqa: BLE001
        inter = None
    expected_any = bool(reference_calls(spec, 1))
    if inter is None:
        rec.check(not expected_any, "debug_tree_missing", "no /intermediate node although models ran")
        return
    for step in range(steps):
        key = f"time_idx_{step}"
        exp_groups, exp_models = [], {}
        for c in reference_calls(spec, 1):
            if c["group"] not in exp_groups:
                exp_groups.append(c["group"])
            exp_models.setdefault(c["group"], []).append(c["tag"])
        if key not in inter.children:
            rec.check(not exp_groups, "debug_tree_mismatch", f"{key} missing")
            continue
        node = inter[key]
        got_groups = list(node.children)
        rec.check(got_groups == exp_groups, "debug_tree_mismatch", f"{key}: groups {got_groups} expected {exp_groups}")
        for g in exp_groups:
            if g in node.children:
                got_models = list(node[g].children)
                rec.check(got_models == exp_models[g], "debug_tree_mismatch", f"{key}/{g}: models {got_models} expected {exp_models[g]}")
    extra = [k for k in inter.children if k.startswith("time_idx_") and int(k.split("_")[-1]) >= steps]
    rec.check(not extra, "debug_tree_mismatch", f"extra steps recorded: {extra}")


PARTS = {"run": body}


def plan(tier):
    n = 120 if tier == "quick" else 800
    return [
        Part(name="run", kind="enum", cases=pair_cases, exhaustive=True, label="group_pairs"),
        Part(name="run", kind="gen", strategy=cases, examples=n, label="generated"),
    ]
