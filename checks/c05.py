"""C05 — observation runs exactly the requested parameter space, correctly labelled."""

from __future__ import annotations

from collections import Counter

import numpy as np
from hypothesis import strategies as st

from vlib import pyx
from vlib.gen_detector import simple_spec
from vlib.gen_paramspace import (KEYS, NAME_KEY, NAMES, NESTED_KEY, VECTOR_KEYS, applied_states, echo_pipeline, expected_pixel, full_state, observation_mode_spec,
                                 reference_runs, select_run, spaces, state_tuple)
from vlib.runner import Part

PROPERTY = "C05"
LEVEL = "exploration"
RULE = (
    "Hypothesis generates parameter spaces of 1..4 parameters over two echo-probe models' arguments (scalar and vector-"
    "valued, with colliding short names) and two detector fields, unique value lists given literally or as numpy "
    "expressions, an enabled/disabled mix, in product / sequential / custom mode (custom: generated table in txt/csv/npy, or a txt/csv table of text cells only for a text-valued parameter, "
    "with extra columns before/after and an optional column_range), on the sequential and the dask (synchronous scheduler) "
    "path. The echo probes log the values they received and encode them into the pixel bucket. Oracle: multiset of applied "
    "states == reference space from itertools; for every reference run, selecting the result by its labels yields that run's "
    "encoding. Part 'rerun': the same Observation object is run again (1..2 times) after other values were configured on the "
    "detector / pipeline through their keys; the later runs must follow the currently configured values. Non-trivial: >=2 enabled parameters, or a vector-valued one, or a disabled one present; distinct by JSON."
)
ASSUMPTIONS = [
    "the dask path's eager metadata run (one extra execution of one element, no result entry) is subtracted",
    "sequential mode with >=2 enabled parameters under with_dask is recorded known finding K1 (zip semantics): excluded from the generator, probed separately",
    "in sequential/custom mode the run index 'id' is the label; parameter coordinates that are present must agree with it",
]
SHARDS = {"quick": 8, "thorough": 16}


def k1_cases():
    return [{"mode": "sequential", "dask": True, "params": [
        {"key": KEYS[0], "values": [3, 5], "enabled": True, "render": "list"},
        {"key": KEYS[3], "values": [7, 9, 11], "enabled": True, "render": "list"}]}]


def body(case, rec):
    from vprobes import models as P

    P.reset()
    en = [p for p in case["params"] if p["enabled"]]
    rec.cls(f"mode:{case['mode']}", "dask" if case["dask"] else "seq", f"enabled:{len(en)}")
    has_vec = any(p["key"] in VECTOR_KEYS for p in en)
    if has_vec:
        rec.cls("vector_param")
    if any(p["key"] == NAME_KEY for p in en):
        rec.cls("text_valued_param")
    if case.get("custom", {}).get("text"):
        rec.cls("custom_table_of_text_cells_only")
    if any(p["key"] == NESTED_KEY for p in en):
        rec.cls("nested_key_param")
    if any(not p["enabled"] for p in case["params"]):
        rec.cls("has_disabled")
    rec.nt(len(en) >= 2 or has_vec or any(not p["enabled"] for p in case["params"]))
    spec = {"detector": simple_spec("CCD", row=2, col=2), "pipeline": echo_pipeline(), "readout": {"times": [1.0]},
            "mode": observation_mode_spec(case, rec.tmp)}
    res, cfg = None, None
    with rec.must_not_raise("valid_space_refused"):
        cfg = pyx.build(spec)
        res = pyx.run(cfg, with_inherited_coords=True)
    if res is None:
        return
    _compare(case, rec, res, {})
    # ---- the same Observation object run again after the user changed configured values (part 'rerun')
    cum = {}
    for k, edits in enumerate(case.get("reruns") or []):
        from pyxel.pipelines import Processor

        cum.update(edits)

        rec.cls("rerun")
        proc = Processor(detector=cfg.detector, pipeline=cfg.pipeline)
        for key, v in edits.items():
            proc.set(key, list(v) if isinstance(v, list) else v)
        P.reset()
        res = None
        with rec.must_not_raise("valid_space_refused"):
            res = pyx.run(cfg, with_inherited_coords=True)
        if res is None:
            return
        _compare(case, rec, res, dict(cum), where=f"run {k + 2} of the same Observation after configuring {cum}: ")


def _state(run, edits):
    s = full_state({})
    s.update({k: (list(v) if isinstance(v, list) else v) for k, v in edits.items()})
    s.update({k: (list(v) if isinstance(v, (list, tuple)) else v) for k, v in run.items()})
    return s


def _compare(case, rec, res, edits, where=""):
    from vprobes import models as P

    ref = reference_runs(case)
    ref_states = [state_tuple(_state(r, edits)) for r in ref]
    got_states = applied_states(P.ECHO)
    want, got = Counter(ref_states), Counter(got_states)
    if case["dask"]:
        extra = got - want
        rec.check(sum(extra.values()) == 1 and all(k in want for k in extra), "runs_differ_from_requested_space",
                  lambda: f"{where}dask path: surplus executions {dict(extra)} (exactly one metadata run of a requested element is allowed); missing {dict(want - got)}")
        rec.check(not (want - got), "runs_differ_from_requested_space", lambda: f"{where}missing runs: {list((want - got))[:3]}")
    else:
        rec.check(got == want, "runs_differ_from_requested_space",
                  lambda: f"{where}{len(got_states)} runs executed, {len(ref_states)} requested; missing {list((want - got))[:2]} extra {list((got - want))[:2]}")
        rec.check(got_states == ref_states, "runs_not_in_documented_order", lambda: f"{where}first executed {got_states[:2]} first requested {ref_states[:2]}")
    # ---- labels
    da = res["/bucket/pixel"]
    n_entries = int(np.prod([da.sizes[d] for d in da.dims if d not in ("time", "y", "x")]))
    rec.check(n_entries == len(ref), "number_of_result_entries", f"{where}{n_entries} entries for {len(ref)} requested runs; dims {dict(da.sizes)}")
    for n, run in enumerate(ref):
        try:
            sel = select_run(da, case, run, n)
        except (LookupError, KeyError) as exc:
            rec.fail("label_not_selectable", f"{where}run {n} {run}: {exc!r}"[:300])
            continue
        val = np.asarray(sel.values, dtype=float)
        exp = expected_pixel(_state(run, edits))
        ok = val.size > 0 and bool(np.allclose(val, exp, rtol=1e-12, atol=1e-9))
        rec.check(ok, "entry_holds_data_of_another_run", lambda: f"{where}run {n} {run}: labelled entry holds {val.ravel()[:2]}, data made with these values is {exp}")


@st.composite
def rerun_cases(draw):
    """A space, plus 1..2 later runs of the same Observation object, each after the user configured other values on detector / pipeline."""
    case = draw(spaces(max_params=3, max_runs=12, with_names=True, with_nested=True))
    case["reruns"] = []
    for _ in range(draw(st.integers(1, 2))):
        edits = {}
        for key in draw(st.lists(st.sampled_from(KEYS + [NAME_KEY, NESTED_KEY]), min_size=1, max_size=3, unique=True)):
            if key in VECTOR_KEYS:
                edits[key] = [float(draw(st.integers(0, 9))), float(draw(st.integers(0, 9)))]
            elif key.endswith("quantum_efficiency"):
                edits[key] = draw(st.sampled_from([0.0625, 0.375, 0.875]))
            elif key.endswith("temperature"):
                edits[key] = draw(st.sampled_from([75.0, 175.0, 275.0]))
            elif key.endswith("other"):
                edits[key] = draw(st.sampled_from([0.5, 3.25, 9.5]))
            elif key == NAME_KEY:
                edits[key] = draw(st.sampled_from(NAMES))
            elif key == NESTED_KEY:
                edits[key] = draw(st.sampled_from([5.0, 6.0, 7.0]))
            else:
                edits[key] = draw(st.integers(41, 80))
        case["reruns"].append(edits)
    return case


def long_expression_cases():
    """Value lists given as short numpy expressions that denote MORE values than the expression has characters ("lists of any length")."""
    out = []
    for expr, vals in (("numpy.arange(22)", list(range(22))), ("numpy.arange(3, 28)", list(range(3, 28))), ("numpy.linspace(0,40,21)", [2.0 * i for i in range(21)])):
        long_p = {"key": KEYS[0], "values": vals, "expr": expr, "enabled": True, "render": "expr"}
        other = {"key": KEYS[2], "values": [1.5, 2.25], "enabled": True, "render": "list"}
        for dask in (False, True):
            out.append({"mode": "product", "dask": dask, "params": [dict(long_p)]})
            out.append({"mode": "product", "dask": dask, "params": [dict(long_p), dict(other)]})
            out.append({"mode": "product", "dask": dask, "params": [dict(other), dict(long_p)]})
        out.append({"mode": "sequential", "dask": False, "params": [dict(long_p), dict(other)]})
    # expressions denoting very small magnitudes (capture cross-sections, ...): the values are what the expression denotes, digit for digit
    tiny = {"key": KEYS[2], "values": [1e-16, 1e-15, 1e-14, 1e-13], "expr": "numpy.logspace(-16, -13, 4)", "enabled": True, "render": "expr"}
    tiny2 = {"key": KEYS[2], "values": [1e-10, 1.5e-10, 2e-10], "expr": "numpy.linspace(1e-10, 2e-10, 3)", "enabled": True, "render": "expr"}
    lvl = {"key": KEYS[0], "values": [3, 1], "enabled": True, "render": "list"}
    for t in (tiny, tiny2):
        for mode, dask in (("product", False), ("product", True), ("sequential", False)):
            out.append({"mode": mode, "dask": dask, "params": [dict(t), dict(lvl)]})
    return out


PARTS = {"space": body, "k1_sequential_dask": body, "rerun": body, "long_expressions": body}


def known_key(part, clause, case, detail):
    en = [p for p in case["params"] if p["enabled"]]
    if case["mode"] == "sequential" and case["dask"] and len(en) >= 2:
        return "K1-sequential-mode-with-dask-zips"
    return None


def plan(tier):
    return [
        Part(name="space", kind="gen", strategy=lambda: spaces(with_names=True, with_nested=True), examples=120 if tier == "quick" else 600),
        Part(name="rerun", kind="gen", strategy=rerun_cases, examples=40 if tier == "quick" else 300),
        Part(name="k1_sequential_dask", kind="enum", cases=k1_cases, shards=1),
        Part(name="long_expressions", kind="enum", cases=long_expression_cases),
    ]
