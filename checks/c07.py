"""C07 — parallel execution yields the same results as sequential execution."""

from __future__ import annotations

import copy
import functools
import threading
from pathlib import Path

import numpy as np
from hypothesis import strategies as st

from vlib import pyx
from vlib.gen_detector import simple_spec
from vlib.gen_paramspace import KEYS, echo_pipeline, observation_mode_spec, reference_runs, select_run, spaces
from vlib.runner import Part

PROPERTY = "C07"
LEVEL = "exploration"
RULE = (
    "Hypothesis generates parameter spaces (as C05) x scheduler in {synchronous, threads with 1/2/4/16 workers, processes with "
    "2/4 workers} x a value-dependent delay probe (so later parameters finish first) x pipeline kind {deterministic, seeded "
    "stochastic} x outputs on/off; every pipeline also lists a disabled model that would change the pixels. Oracle: for every parameter label every bucket of the with_dask result equals the "
    "sequential result selected by the same label, and with outputs every reported file holds the bucket of the run with its "
    "label. Calibration: fixed pygmo_seed, deterministic pipeline, scheduler in {synchronous, threads 4, threads 16}, 1..3 "
    "islands, island creation in a pool or serially - champions must be identical. The known race of seeded stochastic "
    "pipelines under a thread pool (K2) is excluded from the generator and re-tested by a dedicated probe in which the "
    "harness owns the schedule (all runs rendezvous on a barrier right after seeding). Non-trivial: >=3 runs and a non-"
    "synchronous scheduler; distinct by canonical JSON."
)
ASSUMPTIONS = [
    "free-running pools are sampled, not enumerated; the oracle is schedule-independent",
    "known findings K1 (sequential mode + >=2 parameters) and K2 (seeded stochastic + threads) are excluded from the main generator and probed",
    "a broken barrier / pool start failure is reported as inconclusive, never as a violation",
]
SHARDS = {"quick": 8, "thorough": 16}


@st.composite
def cases(draw):
    space = draw(spaces(max_params=3, max_runs=12, with_nested=True))
    space["dask"] = True
    if space["mode"] == "sequential" and sum(p["enabled"] for p in space["params"]) >= 2:
        first = next(i for i, p in enumerate(space["params"]) if p["enabled"])
        for i, p in enumerate(space["params"]):
            if i != first:
                p["enabled"] = False  # K1 class is excluded here
    sched = draw(st.sampled_from([("synchronous", 1), ("threads", 1), ("threads", 2), ("threads", 4), ("threads", 16), ("threads", 4), ("processes", 2), ("processes", 4)]))
    kind = draw(st.sampled_from(["deterministic", "deterministic", "stochastic", "stateful"]))
    if kind == "stochastic" and sched[0] == "threads" and sched[1] > 1:
        sched = draw(st.sampled_from([("synchronous", 1), ("threads", 1), ("processes", 2)]))  # K2 class is excluded here
    return {"space": space, "sched": list(sched), "kind": kind, "delay_ms": draw(st.sampled_from([0.0, 1.0, 3.0])),
            "outputs": draw(st.booleans()), "steps": draw(st.integers(1, 2)), "pipeline_seed": draw(st.integers(0, 2**31))}


def k1_cases():
    space = {"mode": "sequential", "dask": True, "params": [
        {"key": KEYS[0], "values": [3, 5], "enabled": True, "render": "list"},
        {"key": KEYS[3], "values": [7, 9, 11], "enabled": True, "render": "list"}]}
    return [{"space": space, "sched": ["synchronous", 1], "kind": "deterministic", "delay_ms": 0.0, "outputs": False, "steps": 1, "pipeline_seed": 1}]


def k2_cases():
    return [{"n": 4, "pool": 8, "pipeline_seed": 11}, {"n": 6, "pool": 16, "pipeline_seed": 123456}]


def _pipeline(case):
    P = "vprobes.models."
    extra = {"photon_collection": [{"name": "slow", "func": P + "delay", "enabled": True, "arguments": {"level": 0.0, "scale_ms": case["delay_ms"]}}]}
    if case["kind"] == "stochastic":
        extra["charge_measurement"] = [{"name": "rnd", "func": P + "stochastic", "enabled": True, "arguments": {"scale": 3.0}}]
    if case["kind"] == "stateful":  # a model that keeps memory on the detector (as trapped charge does): every run must start from the configured detector
        extra["charge_collection"] = [{"name": "mem", "func": P + "memory", "enabled": True, "arguments": {"bump": 0.25, "tag": "mem"}}]
    # a model that is switched off: it must stay off in every worker (thread, process), whatever way the pipeline travels there
    extra.setdefault("charge_measurement", []).append({"name": "off", "func": P + "memory", "enabled": False, "arguments": {"bump": 1000.0, "tag": "off"}})
    return echo_pipeline(extra)


def _spec(case, tmp, with_dask, out_name):
    space = copy.deepcopy(case["space"])
    space["dask"] = with_dask
    spec = {"detector": simple_spec("CCD", row=2, col=3), "pipeline": _pipeline(case), "readout": {"times": [float(i + 1) for i in range(case["steps"])]},
            "mode": observation_mode_spec(space, tmp)}
    if case["kind"] == "stochastic":
        spec["pipeline_seed"] = case["pipeline_seed"]
    if case["outputs"]:
        spec["outputs"] = {"output_folder": str(Path(tmp) / out_name), "save_data_to_file": [{"detector.pixel.array": ["npy"]}, {"detector.image.array": ["fits"]}]}
    return spec, space


def body(case, rec):
    space = case["space"]
    sched, workers = case["sched"]
    ref = reference_runs(space)
    rec.cls(f"sched:{sched}:{workers}", f"kind:{case['kind']}", f"mode:{space['mode']}", "outputs" if case["outputs"] else "no_outputs")
    rec.nt(len(ref) >= 3 and sched != "synchronous")
    seq = par = None
    with rec.must_not_raise("sequential_run_failed"):
        spec_s, space_s = _spec(case, rec.tmp, False, "out_seq")
        seq = pyx.run(pyx.build(spec_s), with_inherited_coords=True)
    try:
        spec_p, space_p = _spec(case, rec.tmp, True, "out_par")
        cfg_p = pyx.build(spec_p)
        par = pyx.run(cfg_p, with_inherited_coords=True, sched=sched, workers=workers)
    except Exception as exc:  # noqa: BLE001
        rec.fail(f"parallel_run_failed[{sched}]:{type(exc).__name__}", f"{exc!r}"[:300])
    if seq is None or par is None:
        return
    for b in ("pixel", "signal", "image"):
        for n, run in enumerate(ref):
            try:
                a = np.asarray(select_run(seq[f"/bucket/{b}"], space_s, run, n).values)
                p = np.asarray(select_run(par[f"/bucket/{b}"], space_p, run, n).values)
            except (LookupError, KeyError) as exc:
                rec.fail("label_not_selectable", f"{b} run {n} {run}: {exc!r}"[:300])
                continue
            ok = a.shape == p.shape and bool(np.array_equal(a.astype(float), p.astype(float), equal_nan=True))
            rec.check(ok, f"parallel_differs_from_sequential[{case['kind']}]",
                      lambda a=a, p=p, b=b, n=n, run=run: f"{sched}x{workers} {b} run {n} {run}: sequential {a.ravel()[:3]} parallel {p.ravel()[:3]}")
    if case["outputs"]:
        folder = Path(cfg_p.mode.outputs.current_output_folder)
        for b, fm in (("pixel", "npy"), ("image", "fits")):
            da = par[f"/output/{b}/filename"]
            n_files = int(np.prod([da.sizes[d] for d in da.dims]))
            rec.check(n_files == len(ref), "files_not_one_to_one_with_runs", f"{b}: {n_files} reported files for {len(ref)} combinations")
            names = [str(x) for x in np.asarray(da.values).ravel()]
            rec.check(len(set(names)) == len(names), "files_not_one_to_one_with_runs", f"{b}: duplicate file names {sorted(names)[:4]}")
            for n, run in enumerate(ref):
                try:
                    fn = str(np.asarray(select_run(da.sel(extension=fm), space_p, run, n).values).item())
                    want = np.asarray(select_run(par[f"/bucket/{b}"], space_p, run, n).isel(time=-1).values)
                except Exception as exc:  # noqa: BLE001
                    rec.fail("label_not_selectable", f"output {b} run {n}: {exc!r}"[:300])
                    continue
                path = Path(fn) if Path(fn).is_absolute() else folder / fn
                if not rec.check(path.exists(), "reported_file_missing", f"{path}"):
                    continue
                if fm == "npy":
                    got = np.load(path)
                else:
                    from astropy.io import fits

                    got = np.asarray(fits.getdata(path))
                rec.check(got.shape == want.shape and bool(np.array_equal(got.astype(float), want.astype(float))), "file_holds_another_runs_data",
                          lambda got=got, want=want, run=run: f"{b} {run}: file {got.ravel()[:3]} bucket {want.ravel()[:3]}")


def body_k2(case, rec):
    """Harness-owned schedule: all N runs rendezvous right after the per-run seeding, then draw."""
    from concurrent.futures import ThreadPoolExecutor

    import dask

    from vprobes import models as P

    P.reset()
    rec.nt()
    rec.cls("k2_probe")
    n = case["n"]
    Pm = "vprobes.models."
    pipe = echo_pipeline({"photon_collection": [{"name": "gate", "func": Pm + "barrier", "enabled": True, "arguments": {}}],
                          "charge_measurement": [{"name": "rnd", "func": Pm + "stochastic", "enabled": True, "arguments": {"scale": 3.0}}]})
    levels = list(range(1, n + 1))

    def spec(with_dask):
        return {"detector": simple_spec("CCD", row=2, col=3), "pipeline": pipe, "readout": {"times": [1.0]}, "pipeline_seed": case["pipeline_seed"],
                "mode": {"kind": "observation", "with_dask": with_dask, "parameters": [{"key": KEYS[0], "values": levels}]}}

    seq = pyx.run(pyx.build(spec(False)), with_inherited_coords=True)
    cfg = pyx.build(spec(True))
    pool = ThreadPoolExecutor(max_workers=case["pool"])
    state_before = np.random.get_state()
    try:
        with dask.config.set(scheduler="threads", pool=pool):
            import pyxel

            res = pyxel.run_mode(mode=cfg.mode, detector=cfg.detector, pipeline=cfg.pipeline, with_inherited_coords=True)  # metadata run: no barrier armed
            P.BARRIER = threading.Barrier(n, timeout=30)
            try:
                par = res.compute()
            except threading.BrokenBarrierError:
                rec.exclude("inconclusive_barrier")
                return
            finally:
                P.BARRIER = None
    finally:
        pool.shutdown(wait=True)
    a = np.asarray(seq["/bucket/signal"].values, dtype=float)
    p = np.asarray(par["/bucket/signal"].sel(level=levels).values, dtype=float)
    rec.check(bool(np.array_equal(a, p)), "parallel_differs_from_sequential[stochastic]",
              f"{n} seeded stochastic runs overlapping in a thread pool: {int((a != p).any(axis=(1, 2, 3)).sum()) if a.shape == p.shape else '?'} of {n} runs differ from the sequential result")
    st_after = np.random.get_state()
    rec.check(state_before[0] == st_after[0] and np.array_equal(state_before[1], st_after[1]) and state_before[2:] == st_after[2:],
              "seeded_run_changed_global_state[threads]", "the process-wide generator was left perturbed by overlapping seeded runs")


# ------------------------------------------------------------------ calibration
@st.composite
def cal_cases(draw):
    return {"islands": draw(st.integers(1, 3)), "pygmo_seed": draw(st.integers(0, 100000)), "evolutions": draw(st.integers(1, 2)),
            "algo": draw(st.sampled_from(["sade", "sga"])), "topology": draw(st.sampled_from(["unconnected", "ring", "fully_connected"]))}


def body_cal(case, rec):
    import pyxel.calibration.calibration as CC

    rec.cls(f"cal:islands:{case['islands']}", f"cal:{case['algo']}", f"cal:{case['topology']}")
    rec.nt(case["islands"] >= 2)
    if case["islands"] >= 2 and case["topology"] != "unconnected":
        # pygmo migrates individuals between connected islands asynchronously (documented as non-deterministic):
        # the outcome then depends on thread timing inside pygmo itself, whatever pyxel does. Not asserted.
        rec.exclude("excluded_ambiguous:asynchronous_migration_between_connected_islands")
        case = dict(case, topology="unconnected")
    np.save(rec.tmp / "target.npy", np.full((3, 3), 120.0))
    args = {"tag": "cal", "p0": 1.0, "p1": [1.0, 1.0]}
    pipe = {"groups": {"charge_collection": [{"name": "cal", "func": "vprobes.models.cal_probe", "enabled": True, "arguments": args}]}, "yaml_perm": 0}
    mode = {"kind": "calibration", "target_data_path": [str(rec.tmp / "target.npy")], "fitness_function": {"func": "pyxel.calibration.fitness.sum_of_abs_residuals"},
            "algorithm": {"type": case["algo"], "generations": 2, "population_size": 8},
            "parameters": [{"key": "pipeline.charge_collection.cal.arguments.p0", "values": "_", "boundaries": [0.0, 50.0]},
                           {"key": "pipeline.charge_collection.cal.arguments.p1", "values": ["_", "_"], "boundaries": [[-5.0, 5.0], [0.0, 2.0]]}],
            "result_type": "pixel", "target_fit_range": [0, 3, 0, 3], "result_fit_range": [0, 3, 0, 3], "pygmo_seed": case["pygmo_seed"],
            "num_islands": case["islands"], "num_evolutions": case["evolutions"], "topology": case["topology"]}
    spec = {"detector": simple_spec("CCD", row=3, col=3), "pipeline": pipe, "mode": mode}
    outcomes = {}
    orig = CC.ArchipelagoDataTree
    try:
        for label, sched, workers, parallel in (("sync", "synchronous", 1, True), ("threads4", "threads", 4, True), ("threads16", "threads", 16, True), ("serial_islands", "synchronous", 1, False)):
            CC.ArchipelagoDataTree = functools.partial(orig, parallel=parallel)
            res = None
            with rec.must_not_raise(f"calibration_failed[{label}]"):
                res = pyx.run(pyx.build(spec), with_inherited_coords=True, sched=sched, workers=workers)
            if res is not None:
                outcomes[label] = {k: np.asarray(res[f"/champion/{k}"].values, dtype=float) for k in ("fitness", "decision", "parameters")}
    finally:
        CC.ArchipelagoDataTree = orig
    base = outcomes.get("sync")
    if base is None:
        return
    for label, o in outcomes.items():
        for k in base:
            rec.check(o[k].shape == base[k].shape and bool(np.array_equal(o[k], base[k])), f"calibration_outcome_depends_on_execution[{label}]",
                      lambda o=o, k=k, label=label: f"/champion/{k}: {label} {o[k].ravel()[:4]} vs synchronous {base[k].ravel()[:4]}")


def collision_cases():
    """Every declaration order of two parameters that share a short name ('level') and one that does not, in product mode (enumerated)."""
    import itertools

    vals = {KEYS[0]: [3, 1], KEYS[3]: [7, 9], KEYS[5]: [250.0, 150.0]}
    out = []
    for order in itertools.permutations([KEYS[0], KEYS[3], KEYS[5]]):
        for sched in (["synchronous", 1], ["threads", 4]):
            space = {"mode": "product", "dask": True, "params": [{"key": k, "values": list(vals[k]), "enabled": True, "render": "list"} for k in order]}
            out.append({"space": space, "sched": sched, "kind": "deterministic", "delay_ms": 1.0, "outputs": sched[1] == 4, "steps": 1, "pipeline_seed": 1})
    return out


PARTS = {"observation": body, "k1_sequential_mode": body, "k2_seeded_threads": body_k2, "calibration": body_cal, "short_name_collisions": body}


def known_key(part, clause, case, detail):
    if part == "k1_sequential_mode" and clause.startswith(("parallel_differs_from_sequential", "label_not_selectable")):
        return "K1-sequential-mode-with-dask-zips"
    if part == "k2_seeded_threads" and clause in ("parallel_differs_from_sequential[stochastic]", "seeded_run_changed_global_state[threads]"):
        return "K2-seeded-stochastic-under-threads"
    return None


def plan(tier):
    q = tier == "quick"
    return [
        Part(name="observation", kind="gen", strategy=cases, examples=25 if q else 150),
        Part(name="k1_sequential_mode", kind="enum", cases=k1_cases, shards=1),
        Part(name="k2_seeded_threads", kind="enum", cases=k2_cases, shards=2),
        Part(name="calibration", kind="gen", strategy=cal_cases, examples=3 if q else 25),
        Part(name="short_name_collisions", kind="enum", cases=collision_cases),
    ]
