"""C10 — calibration candidates map to the right parameters, inside their bounds."""

from __future__ import annotations

import numpy as np
from hypothesis import strategies as st

from vlib import pyx, pyx_cal, snapshot
from vlib.gen_detector import simple_spec
from vlib.runner import Part

PROPERTY = "C10"
LEVEL = "exploration"
RULE = (
    "Hypothesis generates 1..4 calibrated variables over the arguments of a logging probe model (plus optionally the "
    "detector's quantum efficiency), each a scalar '_' or a vector of 2..4 '_', linear or logarithmic, with a shared (lo, hi) "
    "pair or per-component pairs (positive when logarithmic, lower ends from 1e-20 to 10). Part 'problem': decision vectors drawn inside the box plus "
    "its corners; get_bounds and convert_to_parameters (1-D and 2-D) are compared with a reference written in the harness, "
    "and evaluating fitness(dv) must make the probe receive exactly the slice of each variable. Part 'run': real calibration "
    "runs (sade / sga / nlopt, 1..2 islands, seeds): every logged evaluation and every reported champion / best decision must "
    "lie inside the declared box, parameters == convert(decision), and the champion parameters must occur in the "
    "evaluation log; half of the cases run the same objects a second time under the same oracles. Non-trivial: a vector variable precedes a scalar one, or linear and logarithmic are mixed; distinct by JSON."
)
ASSUMPTIONS = ["relative tolerance 1e-12 for the 10**log10 round trip at the box border", "the synchronous dask scheduler is used here (schedulers: C07)"]
SHARDS = {"quick": 8, "thorough": 16}
ARGS = ("p0", "p1", "p2", "p3")


@st.composite
def variables(draw, max_vars=4, allow_qe=True):
    n_vars = draw(st.integers(1, max_vars))
    args = draw(st.permutations(ARGS))[:n_vars]
    out = []
    for a in args:
        scalar = draw(st.booleans())
        n = 1 if scalar else draw(st.sampled_from([1, 2, 2, 3, 4]))  # (a vector of exactly one placeholder is still a vector)
        log = draw(st.booleans())

        def pair():
            if log:
                lo = draw(st.sampled_from([1e-20, 1e-12, 1e-6, 1e-3, 0.1, 1.0, 10.0]))  # (capture cross-sections are of the order of 1e-20 .. 1e-15)
                return [lo, lo * draw(st.sampled_from([10.0, 100.0, 1e4]))]
            lo = draw(st.sampled_from([-100.0, -1.0, 0.0, 0.5, 10.0]))
            return [lo, lo + draw(st.sampled_from([0.5, 1.0, 10.0, 1000.0]))]

        per_component = (not scalar) and draw(st.booleans())
        b = [pair() for _ in range(n)] if per_component else pair()
        out.append({"arg": a, "key": f"pipeline.charge_collection.cal.arguments.{a}", "scalar": scalar, "n": n, "log": log, "boundaries": b,
                    # the placeholders of a vector given as a tuple instead of a list (Python API; the YAML rendering always produces a list)
                    "as_tuple": (not scalar) and draw(st.sampled_from([False, False, True]))})
    if allow_qe and draw(st.sampled_from([False, False, True])):
        log = draw(st.booleans())
        out.insert(draw(st.integers(0, len(out))), {"arg": "qe", "key": "detector.characteristics.quantum_efficiency", "scalar": True, "n": 1,
                                                    "log": log, "boundaries": [0.01, 1.0] if log else [0.0, 1.0]})
    return out


@st.composite
def problem_cases(draw):
    vs = draw(variables())
    dim = sum(v["n"] for v in vs)
    fr = st.one_of(st.sampled_from([0.0, 1.0]), st.floats(0.0, 1.0))
    dvs = [draw(st.lists(fr, min_size=dim, max_size=dim)) for _ in range(draw(st.integers(1, 4)))]
    return {"variables": vs, "fractions": dvs, "shape": [draw(st.integers(2, 4)), draw(st.integers(2, 4))], "render": draw(st.sampled_from(["python", "yaml"]))}


@st.composite
def run_cases(draw):
    vs = draw(variables(max_vars=3))
    return {"variables": vs, "shape": [3, 3], "algo": draw(st.sampled_from(["sade", "sade", "sga", "nlopt"])),
            "islands": draw(st.integers(1, 2)), "evolutions": draw(st.integers(1, 2)), "pygmo_seed": draw(st.integers(0, 100000)),
            "best": draw(st.sampled_from([None, 2, 3])), "again": draw(st.booleans()), "topology": draw(st.sampled_from(["unconnected", "ring", "fully_connected"]))}


def _nontrivial(vs):
    kinds = [v["scalar"] for v in vs]
    vec_before_scalar = any((not kinds[i]) and any(kinds[i + 1:]) for i in range(len(kinds)))
    return vec_before_scalar or len({v["log"] for v in vs}) == 2


def _spec(case, tmp, algo=None, **mode_extra):
    rows, cols = case["shape"]
    np.save(tmp / "target.npy", np.zeros((rows, cols)))
    args = {"tag": "cal"}
    for v in case["variables"]:
        if v["arg"] != "qe":
            args[v["arg"]] = 1.0 if v["scalar"] else [1.0] * v["n"]
    pipe = {"groups": {"charge_collection": [{"name": "cal", "func": "vprobes.models.cal_probe", "enabled": True, "arguments": args}]}, "yaml_perm": 0}
    params = [dict({"key": v["key"], "values": "_" if v["scalar"] else ["_"] * v["n"], "logarithmic": v["log"], "boundaries": v["boundaries"]},
                   **({"values_as_tuple": True} if v.get("as_tuple") and case.get("render", "python") == "python" else {})) for v in case["variables"]]
    mode = {"kind": "calibration", "target_data_path": [str(tmp / "target.npy")],
            "fitness_function": {"func": "pyxel.calibration.fitness.sum_of_abs_residuals"},
            "algorithm": algo or {"type": "sade", "generations": 1, "population_size": 8},
            "parameters": params, "result_type": "pixel", "target_fit_range": [0, rows, 0, cols], "result_fit_range": [0, rows, 0, cols]}
    mode.update(mode_extra)
    return {"detector": simple_spec("CCD", row=rows, col=cols), "pipeline": pipe, "mode": mode}


def _dv(case, fractions):
    lo, hi = pyx_cal.reference_bounds(case["variables"])
    return [l + f * (h - l) for l, h, f in zip(lo, hi, fractions)]


def _inside(value, lo, hi):
    tol = 1e-12 * max(abs(lo), abs(hi), 1e-300)
    return lo - tol <= value <= hi + tol


def _check_in_declared_bounds(case, received: dict, rec, what):
    for v in case["variables"]:
        val = received.get(v["arg"])
        if val is None:
            continue
        comps = [val] if v["scalar"] else [float(x) for x in np.atleast_1d(val)]  # (a wrongly shaped value is reported by the slice oracle, not here)
        b = v["boundaries"]
        pairs = [b] * v["n"] if not isinstance(b[0], list) else b
        for j, (x, (lo, hi)) in enumerate(zip(comps, pairs)):
            rec.check(_inside(x, lo, hi), "value_outside_declared_boundaries", f"{what}: {v['arg']}[{j}] = {x!r} outside [{lo}, {hi}] (log={v['log']})")


def body_problem(case, rec):
    from vprobes import models as P

    P.reset()
    vs = case["variables"]
    rec.cls(f"vars:{len(vs)}", "has_vector" if any(not v["scalar"] for v in vs) else "scalars_only", "has_log" if any(v["log"] for v in vs) else "linear_only",
            f"render:{case.get('render', 'python')}")
    rec.nt(_nontrivial(vs))
    problem = None
    with rec.must_not_raise("valid_calibration_refused"):
        cfg = pyx.build(_spec(case, rec.tmp), render=case.get("render", "python"), tmp=rec.tmp)  # (half of the calibrations come from a YAML document)
        problem = pyx_cal.make_problem(cfg.mode, cfg.detector, cfg.pipeline)
    if problem is None:
        return
    ref_lo, ref_hi = pyx_cal.reference_bounds(vs)
    lo, hi = problem.get_bounds()
    rec.check(np.allclose(lo, ref_lo, rtol=1e-15, atol=0) and np.allclose(hi, ref_hi, rtol=1e-15, atol=0) and len(lo) == len(ref_lo), "bounds_differ",
              f"get_bounds {list(lo)} / {list(hi)} vs reference {ref_lo} / {ref_hi}")
    dvs = [_dv(case, f) for f in case["fractions"]]
    # 2-D conversion
    got2 = problem.convert_to_parameters(np.array(dvs))
    rec.check(np.allclose(got2, pyx_cal.reference_convert(vs, np.array(dvs)), rtol=1e-14, atol=0), "conversion_differs", f"2-D: {got2.tolist()} vs {pyx_cal.reference_convert(vs, np.array(dvs)).tolist()}")
    for dv in dvs:
        got = problem.convert_to_parameters(np.array(dv))
        want = pyx_cal.reference_convert(vs, dv)
        rec.check(np.allclose(got, want, rtol=1e-14, atol=0), "conversion_differs", f"dv {dv}: {got.tolist()} vs {want.tolist()}")
        P.CAL_LOG.clear()
        with rec.must_not_raise("fitness_evaluation_failed"):
            problem.fitness(np.array(dv))
        if not rec.check(len(P.CAL_LOG) == 1, "number_of_pipeline_runs_per_evaluation", f"{len(P.CAL_LOG)} probe calls for one candidate"):
            continue
        received = dict(P.CAL_LOG[0]["values"])
        if P.CAL_LOG[0]["qe"] is not None and any(v["arg"] == "qe" for v in vs):
            received["qe"] = float(P.CAL_LOG[0]["qe"])
        expected = pyx_cal.reference_split(vs, want)
        for arg, exp in expected.items():
            g = received.get(arg)
            ok = g is not None and np.allclose(np.atleast_1d(g), np.atleast_1d(exp), rtol=1e-14, atol=0) and (np.ndim(g) == 0) == (np.ndim(exp) == 0)
            rec.check(ok, "model_received_wrong_slice", f"variable {arg}: model received {g!r}, decision vector denotes {exp!r} (dv {dv})")
        _check_in_declared_bounds(case, received, rec, f"dv {dv}")


def body_run(case, rec):
    from vprobes import models as P

    P.reset()
    vs = case["variables"]
    rec.cls(f"algo:{case['algo']}", f"islands:{case['islands']}", f"vars:{len(vs)}")
    rec.nt(_nontrivial(vs))
    dim = sum(v["n"] for v in vs)
    algo = {"type": case["algo"], "generations": 2, "population_size": max(8, dim + 3) if case["algo"] != "sga" else 8}
    if case["algo"] == "nlopt":
        algo.update({"nlopt_solver": "neldermead", "maxeval": 10, "population_size": max(dim + 2, 4)})
    extra = {"pygmo_seed": case["pygmo_seed"], "num_islands": case["islands"], "num_evolutions": case["evolutions"], "topology": case["topology"]}
    if case["best"]:
        extra["num_best_decisions"] = case["best"]
    cfg = None
    with rec.must_not_raise("valid_calibration_refused"):
        cfg = pyx.build(_spec(case, rec.tmp, algo=algo, **extra))
    if cfg is None:
        return
    for nrun in range(2 if case.get("again") else 1):  # the same Calibration / detector / pipeline objects run again
        P.reset()
        if nrun:
            rec.cls("second_run_of_the_same_objects")
        if not _one_run(case, rec, cfg, vs, f"run #{nrun + 1}: " if nrun else ""):
            return


def _one_run(case, rec, cfg, vs, where):
    from vprobes import models as P

    res = None
    with rec.must_not_raise("valid_calibration_refused"):
        before = snapshot.snap_all(cfg)
        res = pyx.run(cfg, with_inherited_coords=True)
        d = snapshot.diff(before, snapshot.snap_all(cfg))
        rec.check(not d, "callers_objects_modified_by_calibration", f"{where}{d[:4]}")
    if res is None:
        return False
    log = list(P.CAL_LOG)
    rec.check(len(log) > 0, "no_evaluation_logged", "")
    for i, e in enumerate(log):
        received = dict(e["values"])
        if e["qe"] is not None and any(v["arg"] == "qe" for v in vs):
            received["qe"] = float(e["qe"])
        _check_in_declared_bounds(case, received, rec, f"{where}evaluation #{i}")
        if len(rec.failures) > 5:
            return False
    ref_lo, ref_hi = pyx_cal.reference_bounds(vs)
    for grp in ("champion", "best"):
        if grp not in res.children:
            continue
        dec = np.asarray(res[f"/{grp}/decision"].values, dtype=float)
        par = np.asarray(res[f"/{grp}/parameters"].values, dtype=float)
        flat = dec.reshape(-1, dec.shape[-1])
        for row in flat:
            for j, x in enumerate(row):
                rec.check(_inside(x, ref_lo[j], ref_hi[j]), "reported_decision_outside_box", f"/{grp}/decision component {j} = {x!r} outside [{ref_lo[j]}, {ref_hi[j]}]")
        rec.check(np.allclose(par, pyx_cal.reference_convert(vs, dec), rtol=1e-13, atol=0), "reported_parameters_not_convert_of_decision", f"/{grp}: {par.ravel()[:4]} vs {pyx_cal.reference_convert(vs, dec).ravel()[:4]}")
    # the reported champion parameters were really applied to the pipeline
    champ = np.asarray(res["/champion/parameters"].values, dtype=float)
    applied = []
    for e in log:
        received = dict(e["values"])
        if any(v["arg"] == "qe" for v in vs):
            received["qe"] = float(e["qe"])
        vec = []
        for v in vs:
            g = received.get(v["arg"])
            vec.extend([g] if v["scalar"] else list(g))
        applied.append(vec)
    applied = np.array(applied, dtype=float)
    for isl in range(champ.shape[0]):
        for ev in range(champ.shape[1]):
            c = champ[isl, ev]
            hit = bool(np.any(np.all(np.isclose(applied, c, rtol=1e-12, atol=0), axis=1)))
            rec.check(hit, "champion_parameters_never_applied", f"{where}island {isl} evolution {ev}: {c.tolist()} not among the {len(applied)} evaluated candidates")
    # the simulated data returned for the last champions is the pipeline's output for exactly the reported parameters
    from vprobes.models import cal_frame

    got = None
    with rec.must_not_raise("champion_simulated_data_not_computable"):
        got = np.asarray(res["/simulated/pixel"].compute().values, dtype=float)
    if got is None:
        return False
    rows, cols = case["shape"]
    for isl in range(champ.shape[0]):
        values = pyx_cal.reference_split(vs, champ[isl, -1])
        qe = values.pop("qe", getattr(cfg.detector.characteristics, "_quantum_efficiency", None))
        want = cal_frame((rows, cols), values, step=0, offset=1000.0 * float(qe) if qe is not None else 0.0)
        g = got[isl].reshape(-1, rows, cols)[0]
        rec.check(bool(np.allclose(g, want, rtol=1e-12, atol=1e-9)), "champion_simulated_data_not_from_reported_parameters",
                  f"{where}island {isl}: returned {g.ravel()[:3]}, the reported parameters {champ[isl, -1].tolist()} give {want.ravel()[:3]}")
    return True


PARTS = {"problem": body_problem, "run": body_run}


def plan(tier):
    q = tier == "quick"
    return [
        Part(name="problem", kind="gen", strategy=problem_cases, examples=150 if q else 1000),
        Part(name="run", kind="gen", strategy=run_cases, examples=10 if q else 60),
    ]
