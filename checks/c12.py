"""C12 — a configuration file means what it says, and nonsense is refused."""

from __future__ import annotations

import copy
import math

import numpy as np
from hypothesis import strategies as st

from vlib import pyx
from vlib.gen_detector import build_detector, detector_specs, simple_spec
from vlib.gen_schedule import render_readout_kwargs, schedules
from vlib.runner import Part

PROPERTY = "C12"
LEVEL = "exploration"
RULE = (
    "Part 'grid' (exhaustive): every validated detector field x value class {below, lower bound, inside, upper bound, above} "
    "x path {constructor, YAML, attribute setter, Processor.set, one-value observation sweep} x applicable detector types; "
    "a path must accept the value iff it lies in the documented range. Part 'docs': Hypothesis generates whole configuration "
    "documents (4 detector types x exposure/observation, every field in range or unset, probe pipelines with arbitrary "
    "arguments, readout schedules in 12 renderings, parameter values as lists or numpy expressions), dumps them as YAML with "
    "permuted keys, loads them and compares every attribute with the document and the run result with objects built in "
    "Python. Part 'count' (exhaustive): every subset of the three running modes x every subset of the four detectors other than one of each, and every pair in which the second section has no body, must be refused. Non-trivial: a boundary or "
    "out-of-range value, or a document with >=2 populated groups; distinct by canonical JSON."
)
ASSUMPTIONS = [
    "documented ranges transcribed from docstrings and error messages: QE [0,1], charge-to-volt [0,100], pre-amp [0,1e4], full well [0,1e7], "
    "ADC bits [4,64], temperature (0,1000], wavelength >0, rows/cols >0, thickness [0,1e4], pixel sizes and pixel scale [0,1000], APD gain [1,1000]",
    "calibration documents are covered by C10/C11; here exposure and observation",
]
SHARDS = {"quick": 8, "thorough": 16}

# field -> (section, lo, hi, lo_open, integer, applies_to)
ALL = ("CCD", "CMOS", "MKID", "APD")
NON_APD = ("CCD", "CMOS", "MKID")
FIELDS = {
    "quantum_efficiency": ("characteristics", 0.0, 1.0, False, False, ALL),
    "charge_to_volt_conversion": ("characteristics", 0.0, 100.0, False, False, NON_APD),
    "pre_amplification": ("characteristics", 0.0, 10000.0, False, False, NON_APD),
    "full_well_capacity": ("characteristics", 0.0, 1.0e7, False, False, ALL),
    "adc_bit_resolution": ("characteristics", 4, 64, False, True, ALL),
    "avalanche_gain": ("characteristics", 1.0, 1000.0, False, False, ("APD",)),
    "temperature": ("environment", 0.0, 1000.0, True, False, ALL),
    "wavelength": ("environment", 0.0, None, True, False, ALL),
    "row": ("geometry", 0, None, True, True, ALL),
    "col": ("geometry", 0, None, True, True, ALL),
    "total_thickness": ("geometry", 0.0, 10000.0, False, False, ALL),
    "pixel_vert_size": ("geometry", 0.0, 1000.0, False, False, ALL),
    "pixel_horz_size": ("geometry", 0.0, 1000.0, False, False, ALL),
    "pixel_scale": ("geometry", 0.0, 1000.0, False, False, ALL),
}
CLASSES = ("far_below", "below", "lower", "inside", "upper", "above", "nan")
PATHS = ("ctor", "yaml", "setter", "processor_set", "sweep")


def f_is_bits(field):
    return field == "adc_bit_resolution"


def class_value(field, cls):
    _sec, lo, hi, lo_open, integer, _ = FIELDS[field]
    if cls == "nan":  # not a number: outside every range (written as the text "nan" in the case, turned into a float by the body)
        return None if integer else "nan"
    if cls == "far_below":
        return 0 if f_is_bits(field) else (lo - 100)
    if integer:
        v = {"below": lo - 1, "lower": lo, "inside": lo + 3 if hi is None else (lo + hi) // 2, "upper": hi, "above": None if hi is None else hi + 1}[cls]
    else:
        v = {"below": math.nextafter(lo, -math.inf) if lo != 0.0 else -1e-9, "lower": lo, "inside": (lo + (hi if hi is not None else lo + 20.0)) / 2 or 0.5,
             "upper": hi, "above": None if hi is None else math.nextafter(hi, math.inf)}[cls]
    return v


def in_range(field, v):
    _sec, lo, hi, lo_open, _i, _ = FIELDS[field]
    if v != v:
        return False
    if v < lo or (lo_open and v == lo):
        return False
    return hi is None or v <= hi


def grid_cases():
    out = []
    for f, (sec, lo, hi, lo_open, integer, types) in FIELDS.items():
        for cls in CLASSES:
            v = class_value(f, cls)
            if v is None:
                continue
            for path in PATHS:
                for typ in (types if f in ("quantum_efficiency", "full_well_capacity", "adc_bit_resolution") else types[:1] + types[-1:] if len(types) > 1 else types):
                    out.append({"field": f, "cls": cls, "value": v, "path": path, "type": typ})
    # de-duplicate (types[:1]+types[-1:] may repeat)
    seen, res = set(), []
    for c in out:
        k = (c["field"], c["cls"], c["path"], c["type"])
        if k not in seen:
            seen.add(k)
            res.append(c)
    return res


def _base_spec(typ):
    s = simple_spec(typ, row=3, col=3)
    s["environment"]["wavelength"] = 600.0
    s["geometry"]["pixel_scale"] = 1.5
    return s


def body_grid(case, rec):
    import pyxel
    from pyxel.exposure import Readout
    from pyxel.observation import Observation, ParameterValues
    from pyxel.pipelines import Processor
    from vlib.gen_pipeline import build_pipeline
    from vprobes import models as P

    f, v, path, typ = case["field"], case["value"], case["path"], case["type"]
    if v == "nan":
        v = float("nan")
    sec = FIELDS[f][0]
    ok_expected = in_range(f, v)
    rec.cls(f"path:{path}", f"class:{case['cls']}", f"field:{f}")
    rec.nt(case["cls"] != "inside")
    spec = _base_spec(typ)
    pipe_spec = {"groups": {"photon_collection": [{"name": "t", "func": "vprobes.models.trace", "enabled": True, "arguments": {"tag": "t"}}]}, "yaml_perm": 0}
    key = f"detector.{sec}.{f}"
    P.reset()

    held = {}  # the long-lived detector of the attribute / key / sweep paths and what its section held before

    def keep(det):
        held["det"], held["before"] = det, {k: copy.deepcopy(x) for k, x in vars(getattr(det, sec)).items()}
        return det

    def act():
        if path in ("ctor", "yaml"):
            s = copy.deepcopy(spec)
            s[sec][f] = v
            if path == "ctor":
                build_detector(s)
            else:
                pyx.build({"detector": s, "pipeline": pipe_spec, "mode": {"kind": "exposure"}, "readout": {"times": [1.0]}}, render="yaml", tmp=rec.tmp)
        elif path == "setter":
            det = keep(build_detector(spec))
            setattr(getattr(det, sec), f, v)
            got = getattr(getattr(det, sec), f)
            if got != v and not (got != got and v != v):
                raise AssertionError(f"setter stored {got!r} instead of {v!r}")
        elif path == "processor_set":
            proc = Processor(detector=keep(build_detector(spec)), pipeline=build_pipeline(pipe_spec))
            proc.set(key, v)
            got = proc.get(key)
            if got != v and not (got != got and v != v):
                raise AssertionError(f"Processor.set stored {got!r} instead of {v!r}")
        else:
            obs = Observation(parameters=[ParameterValues(key=key, values=[v])], readout=Readout(times=[1.0]))
            pyxel.run_mode(mode=obs, detector=keep(build_detector(spec)), pipeline=build_pipeline(pipe_spec))

    try:
        act()
        raised = None
    except AssertionError as exc:
        rec.fail("accepted_value_not_stored", f"{f}={v!r} via {path} on {typ}: {exc}")
        return
    except Exception as exc:  # noqa: BLE001
        raised = exc
    if case["cls"] == "nan":
        # Whether "not a number" is inside a documented range is not settled by the statement (pyxel itself accepts it for some quantities and
        # refuses it for others). What the statement does fix is that "the same limits apply" on every path: the verdict of this path must be
        # the verdict of the constructor for the same quantity.
        if path == "ctor":
            return
        s2 = copy.deepcopy(spec)
        s2[sec][f] = v
        try:
            build_detector(s2)
            ctor_refuses = False
        except Exception:  # noqa: BLE001
            ctor_refuses = True
        rec.check((raised is not None) == ctor_refuses, f"limits_differ_between_paths:{f}:{path}",
                  f"{f}=nan on {typ}: the constructor {'refuses' if ctor_refuses else 'accepts'} it, {path} {'refuses' if raised is not None else 'accepts'} it")
        return
    if ok_expected:
        rec.check(raised is None, f"in_range_value_refused:{f}:{path}", f"{f}={v!r} ({case['cls']}) via {path} on {typ}: {raised!r}")
    else:
        rec.check(raised is not None, f"out_of_range_value_accepted:{f}:{path}", f"{f}={v!r} ({case['cls']}) via {path} on {typ} was accepted")
        if path == "sweep" and raised is not None:
            rec.check(not P.TRACE, "model_ran_with_out_of_range_value", f"{f}={v!r}: {len(P.TRACE)} model calls before the error")
        if raised is not None and "det" in held:
            # a refused change leaves the long-lived object exactly as it was (the limits "apply": the bad value is not in effect afterwards)
            now = vars(getattr(held["det"], sec))
            bad = [k for k in set(now) | set(held["before"]) if k != "_numbytes" and repr(now.get(k)) != repr(held["before"].get(k))]
            rec.check(not bad, f"refused_value_left_in_object:{f}:{path}",
                      f"{f}={v!r} via {path} on {typ} was refused ({type(raised).__name__}) but the {sec} now holds {[(k, now.get(k)) for k in bad]}, before {[(k, held['before'].get(k)) for k in bad]}")


# ------------------------------------------------------------------ whole documents
@st.composite
def doc_cases(draw):
    from vlib.gen_pipeline import pipeline_specs

    det = draw(detector_specs(max_rows=4, max_cols=4, pixel_sizes=st.sampled_from([10.0, 18.0])))
    if "temperature" not in det["environment"]:
        det["environment"]["temperature"] = 150.0
    pipe = draw(pipeline_specs(func="vprobes.models.trace", max_models=2))
    # one echo model so that results carry information
    pipe["groups"].setdefault("charge_collection", None)
    lst = list(pipe["groups"]["charge_collection"] or [])
    lst.append({"name": "echo", "func": "vprobes.models.echo", "enabled": True,
                "arguments": {"level": draw(st.integers(1, 50)), "vec": [draw(st.integers(0, 9)), draw(st.integers(0, 9))], "tag": "echo"}})
    pipe["groups"]["charge_collection"] = lst
    mode = draw(st.sampled_from(["exposure", "observation"]))
    case = {"det": det, "pipeline": pipe, "sched": draw(schedules(max_n=4)), "non_destructive": draw(st.booleans()),
            "pipeline_seed": draw(st.one_of(st.none(), st.integers(0, 2**31))), "mode": mode}
    if mode == "observation":
        n = draw(st.integers(1, 3))
        vals = draw(st.lists(st.integers(1, 40), min_size=n, max_size=n, unique=True))
        rend = draw(st.sampled_from(["list", "numpy_array", "numpy_arange", "list_expr"]))
        case["param"] = {"values": vals, "render": rend, "pmode": draw(st.sampled_from(["product", "sequential"])), "with_dask": draw(st.booleans())}
    return case


def _param_values(p):
    vals = p["values"]
    r = p["render"]
    if r == "list":
        return list(vals), list(vals)
    if r == "numpy_array":
        return "numpy.array(" + repr(list(vals)) + ")", list(vals)
    if r == "numpy_arange":
        a, n = vals[0], len(vals)
        return f"numpy.arange({a}, {a + 2 * n}, 2)", [a + 2 * i for i in range(n)]
    return repr(list(vals)), list(vals)


def body_docs(case, rec):
    from vprobes import models as P

    det = case["det"]
    sched = case["sched"]
    rk = render_readout_kwargs(sched, rec.tmp)
    spec = {"detector": det, "pipeline": case["pipeline"], "readout": rk, "non_destructive": case["non_destructive"],
            "pipeline_seed": case["pipeline_seed"]}
    expect_values = None
    if case["mode"] == "exposure":
        spec["mode"] = {"kind": "exposure"}
    else:
        pv, expect_values = _param_values(case["param"])
        spec["mode"] = {"kind": "observation", "mode": case["param"]["pmode"], "with_dask": case["param"]["with_dask"],
                        "parameters": [{"key": "pipeline.charge_collection.echo.arguments.level", "values": pv}]}
    groups = [g for g, m in case["pipeline"]["groups"].items() if m]
    rec.cls(f"type:{det['type']}", f"mode:{case['mode']}", f"render:{sched['render']}")
    rec.nt(len(groups) >= 2)
    cy = cp = None
    with rec.must_not_raise("valid_document_refused"):
        cy = pyx.build(spec, render="yaml", tmp=rec.tmp)
    with rec.must_not_raise("python_construction_failed"):
        cp = pyx.build(spec, render="python")
    if cy is None or cp is None:
        return
    # ---- every setting equals the value written in the file
    d = cy.detector
    rec.check(type(d).__name__ == det["type"], "doc_detector_type", f"{type(d).__name__}")
    for sec in ("geometry", "environment", "characteristics"):
        obj = getattr(d, sec)
        for k, v in det[sec].items():
            got = getattr(obj, "_" + k, None)
            if k == "adc_voltage_range" and got is not None:
                got = list(got)
            rec.check(got == v or (isinstance(v, float) and got is not None and float(got) == v), f"doc_value_differs:{sec}.{k}",
                      f"file says {k}: {v!r}, loaded object holds {got!r}")
    ro = cy.mode.readout
    rec.check([float(t) for t in ro.times] == [float(t) for t in sched["times"]], "doc_value_differs:readout.times",
              f"file {rk} denotes {sched['times']}, loaded {list(ro.times)}")
    rec.check(float(ro.start_time) == float(sched["start"]), "doc_value_differs:readout.start_time", f"{ro.start_time} vs {sched['start']}")
    rec.check(bool(ro.non_destructive) == case["non_destructive"], "doc_value_differs:readout.non_destructive", "")
    rec.check(cy.mode.pipeline_seed == case["pipeline_seed"], "doc_value_differs:pipeline_seed", f"{cy.mode.pipeline_seed}")
    from vlib.gen_pipeline import GROUP_ORDER

    for g in GROUP_ORDER:
        want = case["pipeline"]["groups"].get(g) or []
        grp = getattr(cy.pipeline, g)
        got_models = list(grp.models) if grp is not None else []
        if not rec.check(len(got_models) == len(want), f"doc_value_differs:pipeline.{g}", f"{len(got_models)} models, file lists {len(want)}"):
            continue
        for m, w in zip(got_models, want):
            ok = m.name == w["name"] and m._func_name == w["func"] and bool(m.enabled) == (w.get("enabled") is not False) and dict(m.arguments) == (w.get("arguments") or {})
            rec.check(ok, f"doc_value_differs:pipeline.{g}.model", f"{m!r} vs {w}")
    if expect_values is not None:
        pm = cy.mode.parameter_mode
        got_vals = [list(p) for p in pm.enabled_steps]
        rec.check(got_vals == [expect_values], "doc_value_differs:parameters", f"file denotes {expect_values}, loaded {got_vals}")
    # ---- running the loaded objects == running objects built in Python
    ry = rp = None
    P.reset()
    with rec.must_not_raise("run_failed[yaml]"):
        ry = pyx.run(cy, with_inherited_coords=True)
    ty = [(r.get("tag"), r.get("step"), r.get("level")) for r in P.TRACE]
    P.reset()
    with rec.must_not_raise("run_failed[python]"):
        rp = pyx.run(cp, with_inherited_coords=True)
    tp = [(r.get("tag"), r.get("step"), r.get("level")) for r in P.TRACE]
    if ry is None or rp is None:
        return
    rec.check(ty == tp, "yaml_and_python_runs_differ:calls", f"{ty[:6]} vs {tp[:6]}")
    by, bp = ry["/bucket"].to_dataset(), rp["/bucket"].to_dataset()
    rec.check(set(by.data_vars) == set(bp.data_vars), "yaml_and_python_runs_differ:variables", f"{set(by.data_vars) ^ set(bp.data_vars)}")
    for name in set(by.data_vars) & set(bp.data_vars):
        a, b = by[name], bp[name]
        same = a.dims == b.dims and a.shape == b.shape and bool(np.array_equal(np.asarray(a.values), np.asarray(b.values), equal_nan=True))
        same = same and all(np.array_equal(np.asarray(a[c].values), np.asarray(b[c].values)) for c in a.coords if c in b.coords)
        rec.check(same, f"yaml_and_python_runs_differ:{name}", f"{a.dims}{a.shape} vs {b.dims}{b.shape}")


# ------------------------------------------------------------------ mode / detector count
def count_cases():
    import itertools

    M, D = ["exposure", "observation", "calibration"], ["CCD", "CMOS", "MKID", "APD"]
    out = []
    for km in range(len(M) + 1):
        for modes in itertools.combinations(M, km):
            for kd in range(len(D) + 1):
                for dets in itertools.combinations(D, kd):
                    if len(modes) == 1 and len(dets) == 1:
                        continue
                    out.append({"modes": list(modes), "dets": list(dets)})
    # a second section that is present but has no body (`observation:` with everything below it commented out) is a second section all the same
    for a, b in itertools.permutations(M, 2):
        out.append({"modes": [a, b], "dets": ["CCD"], "empty": [b]})
    for a, b in itertools.permutations(D, 2):
        out.append({"modes": ["exposure"], "dets": [a, b], "empty": [b]})
    return out


def body_count(case, rec):
    import yaml
    import pyxel
    from vlib.gen_detector import detector_yaml_dict

    rec.nt()
    rec.cls(f"modes:{len(case['modes'])}", f"dets:{len(case['dets'])}")
    doc = {"pipeline": {"photon_collection": [{"name": "t", "func": "vprobes.models.trace", "enabled": True, "arguments": {"tag": "t"}}]}}
    for m in case["modes"]:
        if m == "exposure":
            doc["exposure"] = {"readout": {"times": [1.0]}}
        elif m == "observation":
            doc["observation"] = {"readout": {"times": [1.0]}, "parameters": [{"key": "detector.environment.temperature", "values": [100, 200]}]}
        else:
            np.save(rec.tmp / "target.npy", np.zeros((3, 3)))
            doc["calibration"] = {"target_data_path": [str(rec.tmp / "target.npy")], "fitness_function": {"func": "pyxel.calibration.fitness.sum_of_abs_residuals"},
                                  "algorithm": {"type": "sade", "generations": 1, "population_size": 4},
                                  "parameters": [{"key": "detector.environment.temperature", "values": "_", "boundaries": [100, 200]}], "result_type": "pixel",
                                  "target_fit_range": [0, 3, 0, 3], "result_fit_range": [0, 3, 0, 3]}
    for t in case["dets"]:
        doc.update(detector_yaml_dict(simple_spec(t, row=3, col=3)))
    for name in case.get("empty", []):
        key = name if name in doc else {"CCD": "ccd_detector", "CMOS": "cmos_detector", "MKID": "mkid_detector", "APD": "apd_detector"}[name]
        assert key in doc
        doc[key] = None
    if case.get("empty"):
        rec.cls("second_section_without_body")
    path = rec.tmp / "doc.yaml"
    path.write_text(yaml.safe_dump(doc, sort_keys=False))
    exc = rec.raises("ambiguous_document_accepted", lambda: pyxel.load(path), detail=f"modes={case['modes']} detectors={case['dets']}")
    if exc is not None:
        rec.check(isinstance(exc, (ValueError, KeyError, TypeError)), "ambiguous_document_accepted", f"unexpected error type {exc!r}")


PARTS = {"grid": body_grid, "docs": body_docs, "count": body_count}


def plan(tier):
    q = tier == "quick"
    return [
        Part(name="grid", kind="enum", cases=grid_cases, exhaustive=True),
        Part(name="count", kind="enum", cases=count_cases, exhaustive=True),
        Part(name="docs", kind="gen", strategy=doc_cases, examples=60 if q else 400),
    ]
