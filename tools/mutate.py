#!/venv/bin/python
"""Sensitivity protocol helper: apply a textual mutation (or a patch) to a scratch copy of /repo's
pyxel package outside /repo and /verif, run quick checks against it, remove the copy.

  tools/mutate.py --file pyxel/pipelines/pipeline.py --old 'A' --new 'B' C01 C02
  tools/mutate.py --patch seeded/x/patch.diff C05
Exit status: 0 if every listed check reported a VIOLATION (mutant killed), 1 otherwise.
"""
import argparse, os, shutil, subprocess, sys, tempfile
from pathlib import Path

ap = argparse.ArgumentParser()
ap.add_argument("--file"); ap.add_argument("--old"); ap.add_argument("--new")
ap.add_argument("--patch"); ap.add_argument("--tier", default="quick"); ap.add_argument("--seed", default="1")
ap.add_argument("props", nargs="+")
a = ap.parse_args()
scratch = Path(tempfile.mkdtemp(prefix="mut_repo_"))
try:
    shutil.copytree("/repo/pyxel", scratch / "pyxel", ignore=shutil.ignore_patterns("__pycache__"))
    if a.patch:
        r = subprocess.run(["patch", "-p1", "-s", "-i", str(Path(a.patch).resolve())], cwd=scratch)
        if r.returncode:
            print("patch failed"); sys.exit(2)
    else:
        p = scratch / a.file
        s = p.read_text()
        if s.count(a.old) != 1:
            print(f"mutation site found {s.count(a.old)} times (need exactly 1)"); sys.exit(2)
        p.write_text(s.replace(a.old, a.new))
    env = dict(os.environ, VERIF_REPO=str(scratch), VERIF_SEED=a.seed)
    killed_all = True
    for prop in a.props:
        r = subprocess.run(["/verif/run_check.py", prop, "--tier", a.tier], env=env, capture_output=True, text=True, cwd="/verif")
        lines = [l for l in r.stdout.splitlines() if l.startswith(("VIOLATION", "  signature", "HARNESS", prop))]
        print(f"--- {prop}: exit={r.returncode}")
        for l in lines[:8]:
            print("   ", l[:300])
        if r.returncode != 1:
            killed_all = False
    # replays written while testing a mutant are not regressions of the real tree
    for prop in a.props:
        for f in Path("/verif/replays", prop).glob("found_*.json"):
            f.unlink()
    # evidence files were rewritten against the mutant: restore by rerunning is the caller's job
    sys.exit(0 if killed_all else 1)
finally:
    shutil.rmtree(scratch, ignore_errors=True)
