#!/venv/bin/python
"""Write the 'needs' / 'history' annotations of seeded/.notes*.json into the matching seeded/<name>/meta.json files."""
import json
from pathlib import Path

root = Path("/verif/seeded")
for nf in sorted(root.glob(".notes*.json")):
    for name, (needs, history) in json.loads(nf.read_text()).items():
        mf = root / name / "meta.json"
        if not mf.exists():
            print("no meta yet:", name)
            continue
        m = json.loads(mf.read_text())
        m["needs"], m["history"] = needs, history
        mf.write_text(json.dumps(m, indent=1))
