#!/venv/bin/python
"""Regenerate MANIFEST.json from the table in tools/manifest_table.py (keeps the file schema-valid)."""
import json, sys
from pathlib import Path
VERIF = Path(__file__).resolve().parent.parent
sys.path.insert(0, str(VERIF / "tools"))
from manifest_table import CHECKS, NOT_APPLICABLE, HOOK_COMMITS  # noqa: E402

props = [json.loads(l)["id"] for l in open(VERIF / "properties.jsonl")]
checks = []
for pid in props:
    if pid not in CHECKS:
        continue
    c = CHECKS[pid]
    checks.append({
        "property_id": pid,
        "quick_cmd": f"./run_check.py {pid} --tier quick",
        "thorough_cmd": f"./run_check.py {pid} --tier thorough",
        "evidence_file": f"evidence/{pid}.json",
        "replay_cmd_template": f"./run_check.py {pid} --replay {{path}}",
        "engine": "pbt-runner",
        "level_claimed": {"category": c.get("level", "exploration"), "text": c["text"], "design_ref": c["design_ref"]},
        "level_note": c["note"],
        "technique": c["technique"],
    })
na = [{"property_id": p, "reason": NOT_APPLICABLE.get(p, "check not built yet (work in progress; see DESIGN.md section 7)")}
      for p in props if p not in CHECKS]
m = {
    "version": 1,
    "setup_cmd": "./setup.sh",
    "hooks": {
        "guard": "PYXEL_VERIF",
        "enable": "no source hooks are needed: checks import /repo's working tree in fresh interpreters (PYTHONPATH=/repo:/verif); PYXEL_VERIF=1 is exported for completeness",
        "baseline_off_cmd": "cd /repo && /venv/bin/python -m pytest -ra -q -p no:cacheprovider --timeout=900 --continue-on-collection-errors",
        "source_commits": HOOK_COMMITS,
        "add_only": True,
    },
    "engines": [{"name": "pbt-runner", "path": "run_check.py", "serves_properties": [c["property_id"] for c in checks],
                 "kind_free_text": "Hypothesis-driven generated-input search (JSON case specs, model-based operation sequences, "
                                   "exhaustive finite sub-grids, fault-site enumeration) with explicit oracles; sharded over worker "
                                   "processes; collect-bucket-shrink-replay"}],
    "checks": checks,
    "not_applicable": na,
    "notes": "All checks: cwd=/verif, honour VERIF_SEED, exit 0/1/2 (2 = harness error). Known findings: known_findings.json. "
             "Replays: replays/<id>/*.json are re-run first by every run.",
}
(VERIF / "MANIFEST.json").write_text(json.dumps(m, indent=1) + "\n")
import jsonschema  # noqa: E402
jsonschema.validate(m, json.load(open("/root/.vp/MANIFEST.schema.json")))
print("MANIFEST.json written:", len(checks), "checks,", len(na), "not claimed")
