HOOK_COMMITS = []
NOT_APPLICABLE = {}
CHECKS = {
    "C13": {
        "technique": "model-based property testing of generated operation sequences (Hypothesis) against a reference container model",
        "text": "Generated set/update/+=/empty/read/==/detector-assignment sequences on photon, pixel, signal, image and phase "
                "containers of generated detectors are compared step by step with a None|ndarray reference model; exploration, "
                "thousands of sequences per run, no absence claim.",
        "design_ref": "DESIGN.md section 3, C13",
        "note": "Trusted: numpy semantics for in-place addition and array equality; container state is read back only through the public API.",
    },
}
