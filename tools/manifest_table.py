HOOK_COMMITS = []
NOT_APPLICABLE = {}
CHECKS = {
    "C01": {
        "technique": "property-based testing: generated pipeline specs rendered as Python objects or permuted YAML, tracing probe models, exact comparison of the observed call list with a reference list; exhaustive enumeration of all group pairs",
        "text": "Every generated pipeline (any subset of groups, enabled patterns, arbitrary argument dicts, 1..4 steps) is run in exposure "
                "(debug on/off), sequential and dask observation; the call log of tracing probes must equal the reference list built from a "
                "literal copy of the group order. All 45 group pairs x 3 enabled patterns x 2 renderings are enumerated on every run. Exploration, no absence claim.",
        "design_ref": "DESIGN.md section 3, C01",
        "note": "Trusted: the probe's own logging; the literal group-order tuple copied from the property statement. The dask path's single eager metadata run is allowed.",
    },
    "C02": {
        "technique": "property-based testing: generated schedules x renderings x write plans x detector histories with clock-and-bucket probes (reference clock computed in the harness); invalid schedules by mutation through 7 entry points",
        "text": "Valid schedules in 12 renderings are run with a probe first and last in each step; clock values and the state of every bucket at "
                "step start are compared with a reference computed from the spec, for fresh detectors, detectors with planted leftovers and detectors "
                "that already ran other exposures. Mutated (invalid) schedules must raise before any probe runs. Exploration.",
        "design_ref": "DESIGN.md section 3, C02",
        "note": "Trusted: probe reads through the detector's public properties. NaN schedules and zeros at later positions are outside both the accept and the reject set.",
    },
    "C13": {
        "technique": "model-based property testing of generated operation sequences (Hypothesis) against a reference container model",
        "text": "Generated set/update/+=/empty/read/==/detector-assignment sequences on photon, pixel, signal, image and phase "
                "containers of generated detectors are compared step by step with a None|ndarray reference model; exploration, "
                "thousands of sequences per run, no absence claim.",
        "design_ref": "DESIGN.md section 3, C13",
        "note": "Trusted: numpy semantics for in-place addition and array equality; container state is read back only through the public API.",
    },
}
