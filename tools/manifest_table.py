HOOK_COMMITS = []
NOT_APPLICABLE = {}
CHECKS = {
    "C01": {
        "technique": "property-based testing: generated pipeline specs rendered as Python objects or permuted YAML, tracing probe models, exact comparison of the observed call list with a reference list; exhaustive enumeration of all group pairs",
        "text": "Every generated pipeline (any subset of groups, enabled patterns, arbitrary argument dicts, 1..4 steps) is run in exposure "
                "(debug on/off), sequential and dask observation; the call log of tracing probes must equal the reference list built from a "
                "literal copy of the group order. All 45 group pairs x 3 enabled patterns x 2 renderings are enumerated on every run. Exploration, no absence claim.",
        "design_ref": "DESIGN.md section 3, C01",
        "note": "Trusted: the probe's own logging; the literal group-order tuple copied from the property statement. The dask path's single eager metadata run is allowed. Entries: pyxel.run_mode (exposure, debug, sequential / dask observation, calibration) and the older pyxel.exposure_mode / pyxel.observation_mode; re-runs of the same pipeline object after its enabled flags were edited. A model entry may be listed again in another group; the YAML rendering then writes it once and refers to it by an alias. A third of the probes declare parameters with defaults and are configured with None / falsy / other values for every one of them.",
    },
    "C02": {
        "technique": "property-based testing: generated schedules x renderings x write plans x detector histories with clock-and-bucket probes (reference clock computed in the harness); invalid schedules by mutation through 7 entry points",
        "text": "Valid schedules in 12 renderings are run with a probe first and last in each step; clock values and the state of every bucket at "
                "step start are compared with a reference computed from the spec, for fresh detectors, detectors with planted leftovers and detectors "
                "that already ran other exposures. Mutated (invalid) schedules must raise before any probe runs. Exploration.",
        "design_ref": "DESIGN.md section 3, C02",
        "note": "Written values include non-finite content (nan / inf) for the float buckets. Trusted: probe reads through the detector's public properties. NaN schedules and zeros at later positions are outside both the accept and the reject set. A quarter of the cases run through the older pyxel.exposure_mode loop. Part 'readout_sweep': schedules produced by a dask sweep of observation.readout.times with generated start times. After a refused times / start_time setter a run must step through the schedule the Readout held before. Readout-time files come as one value per line, one comma-separated line, and 1-D / (1,N) / (N,1) arrays. Earlier runs on the same detector include runs with the very same times and mode and another start time.",
    },
    "C03": {
        "technique": "property-based testing: generated writer-probe pipelines with per-step plans and dtypes; result slices, labels, dtypes, scene/data nodes and debug records compared with in-run snapshots; flat-vs-hierarchical and debug-on-vs-off differentials",
        "text": "Each generated exposure (1..5 steps, 2-D/3-D photon, charge arrays/clusters, pixel, signal, image uint8..uint64, scene, data nodes) is run "
                "three times (flat, hierarchical, debug); every result slice must equal the bucket snapshot taken by a probe at the end of that step, "
                "labels/dtypes are checked, layouts and debug on/off must agree, and every debug record is checked for soundness and completeness "
                "against before/after snapshots of each writer. Exploration.",
        "design_ref": "DESIGN.md section 3, C03",
        "note": "Trusted: snapshot probes (public API reads). Known finding K4 (uint64 > 2^53) is excluded from the main generator and probed separately. Float buckets also carry nan / inf frames; a bucket may be updated in place by a second model of the same step. Debug records are checked for soundness, completeness and minimality (a bucket neither the model nor the preceding reset touched must not be recorded; frames containing NaN excepted). A third of the multi-wavelength cubes carry 'y' / 'x' positions of their own (the result must still be labelled with row / column indices). Exposures of 31..100 readouts (around and at multiples of 32 and 50) are enumerated on every run.",
    },
    "C15": {
        "technique": "property-based testing of the listed library models with generated frames/parameters against accounting oracles (exact identity, min, idempotence, kernel sum, conservation invariants), repeated over generated steps",
        "text": "simple_collection (exact sum), simple_conversion (integer 0..photons / exact QE product, 2-D and multi-wavelength), simple_full_well (minimum, idempotent), "
                "simple_ipc (kernel sums to 1, centre weight, uniform frame, impulse response), cdm parallel/serial (finite, non-negative, no charge created, repeated) and both "
                "persistence models (pixel + trapped conserved per pixel, trapped >= 0, 1..5 species, capacities, 1..4 steps with refills) are run on generated non-negative frames. Exploration.",
        "design_ref": "DESIGN.md section 3, C15",
        "note": "Tolerance 1e-9 relative on conservation sums (fastmath kernels). CDM parameters strictly positive where the model divides. CDM has a 'heavy_damage' regime (faint compact source far from the output node, about one trap per pixel and species, release within the read-out). Multi-wavelength photons use regular or generated irregular wavelength grids of 2..5 values. Part 'conversion_qe_map': conversion_with_qe_map with generated per-pixel efficiency maps (npy / fits, pixels of exactly 0 and 1): exactly map x photons without sampling, between 0 and the photons with it.",
    },
    "C16": {
        "technique": "property-based testing around code-transition points (+-1 ulp) with bounds / monotonicity / saturation oracles; exhaustive enumeration of every transition for 4..12 bits x 4 classic ranges; differential noisy-SAR(zero noise) vs SAR",
        "text": "Signals are constructed at generated code-transition voltages with both float neighbours, interior and far-outside values and infinities, "
                "in float16/32/64, for 4..53 bits and classic or generated ranges; codes are compared as Python integers against [0, 2^bits-1], sortedness "
                "and saturation; the 4..12-bit x 4-range grid is enumerated completely on every run. Exploration plus a small exhaustive grid.",
        "design_ref": "DESIGN.md section 3, C16",
        "note": "NaN not in the domain. Known finding K3 (bits >= 54) excluded from the main generator and probed separately. Part 'large_frames': frames of 0.7..1.1 million pixels through all three converters. The large-frame part also uses Fortran-ordered and transposed frames.",
    },
    "C17": {
        "technique": "metamorphic property-based testing: generated partitions of one exposure interval over generated pipelines of the library's deterministic flux-integrating models; partition-vs-single-readout and interval-scaling relations",
        "text": "For generated intervals, partitions (1..12 readouts), start times, geometries and subsets of the real library models (illumination x3, "
                "load_image, stripe_pattern, load_charge, noise-free dark_current, expectation-value conversion, simple_collection) the non-destructive "
                "final pixel frame must equal the single-readout frame, intermediate readouts must be proportional to elapsed time, destructive frames "
                "proportional to their own duration, and scaling all intervals must scale all frames. Exploration.",
        "design_ref": "DESIGN.md section 3, C17",
        "note": "Relative tolerance 1e-12 x readouts. Trusted: numpy for the comparison; the relation itself needs no reference implementation. All four detector types; random and evenly spaced partitions. load_image is drawn with and without convert_to_photons. A third of the cases run every exposure on objects that have already been through it once.",
    },
    "C13": {
        "technique": "model-based property testing of generated operation sequences (Hypothesis) against a reference container model",
        "text": "Generated set/update/+=/empty/read/==/detector-assignment sequences on photon, pixel, signal, image and phase "
                "containers of generated detectors are compared step by step with a None|ndarray reference model; exploration, "
                "thousands of sequences per run, no absence claim.",
        "design_ref": "DESIGN.md section 3, C13",
        "note": "Trusted: numpy semantics for in-place addition and array equality; container state is read back only through the public API. Operations include the detector-level reset Detector.empty(reset) of both readout modes.",
    },
    "C20": {
        "technique": "property-based testing: per-pixel reference placement for fit_into_array; write/read round trips over formats and delimiters; generated rewrite histories with a harness-owned file clock against the cached loaders",
        "text": "Placement of generated inputs on generated detector shapes (offsets, five alignment keywords, non-overlap, forbidden smaller arrays) is compared with a per-pixel "
                "definition; arrays written by the harness as npy/fits/txt/data/csv with five delimiters must be read back exactly by load_image and load_table; histories that "
                "rewrite one path 2..4 times must always deliver the current content through load_image, load_charge and the cached helper. Exploration.",
        "design_ref": "DESIGN.md section 3, C20",
        "note": "Rewrites are stamped by the harness (mtime advanced by 1 s, or restored while the size differs); a rewrite preserving size, mtime, ctime and inode is not distinguishable by file metadata and is not generated. Part 'large_files': 8x400, 400x8, 3x2000 and 120x120 text files for every delimiter and both readers.",
    },
    "C14": {
        "technique": "model-based property testing of generated operation sequences on the charge container against an exact rational-arithmetic accumulator; outside-area cases executed in a child process with numba bounds checking (crash = violation)",
        "text": "Generated interleavings of array additions, cluster additions (positions from interior/border/+-1ulp/edge/negative/beyond/far classes, pixel sizes incl. 0.1, 0.3, 1/3), "
                "reads, removals and resets are applied to detector.charge and to an exact per-pixel accumulator; the reported array must equal the accumulator after every step, "
                "outside clusters must be credited nowhere and must not crash or corrupt memory. Exploration.",
        "design_ref": "DESIGN.md section 3, C14",
        "note": "Child processes run with NUMBA_BOUNDSCHECK=1 (sanitizer-style). Only non-negative charge is added. Cluster columns are float64 or object-typed (as pyxel's own charge_deposition hands them over; finding F33, fixed). Histories contain a 'restore' operation (the detector rebuilt through to_dict / from_dict). 'resize' operations and a structured part change the pixel sizes of the same geometry object between two lives of the detector. A structured family removes clusters by id in 2..4 rounds without an addition in between.",
    },
    "C18": {
        "technique": "round-trip property-based testing (save -> load) with the harness's own field-by-field comparator over generated detectors and container subsets; in-pipeline differential for the load_detector model",
        "text": "Generated detectors of the four types with every subset of containers initialised (2-D/3-D photon, charge array and cluster table, pixel, signal, image uint8..64, "
                "phase, scene sources, data nodes) are written to ASDF and read back through Detector.load and the typed loaders; geometry, environment, characteristics and every "
                "container are compared field by field. A file made from detector X is loaded by the load_detector model at a generated pipeline position of a running detector Y; "
                "the detector after the run and the returned result must hold X's data. Exploration.",
        "design_ref": "DESIGN.md section 3, C18",
        "note": "HDF5 skipped (h5py absent; counted). Containers compared by emptiness, shape, dtype kind and exact values. The data tree includes groups without variables (coordinates only, attributes only, empty leaf); group existence and attributes are compared. The model part also compares the /data and /scene groups of the returned result with the file. Multi-wavelength photons use increasing, decreasing and shuffled wavelength axes. The kind of type (integer / float) of every cluster-table column is part of the comparison.",
    },
    "C12": {
        "technique": "exhaustive field x value-class x path acceptance grid (differential between constructor, YAML, setter, Processor.set and sweep against the documented range table) plus property-based testing of generated whole configuration documents (YAML vs Python construction differential)",
        "text": "The grid of 14 validated fields x 6 value classes x 5 paths x detector types is enumerated completely on every run: a path must accept a value iff it is inside the documented range. "
                "Generated documents (4 detector types, exposure/observation, schedules in 12 renderings, numpy-expression parameter values, probe pipelines with arbitrary arguments, permuted keys) are loaded "
                "and every attribute is compared with the document; running the loaded objects must equal running Python-built objects. All documents with 0 or >=2 modes/detectors must be refused.",
        "design_ref": "DESIGN.md section 3, C12",
        "note": "Range table transcribed from docstrings and error messages. Calibration documents are exercised by C10/C11. A refused change through attribute, key or sweep must leave the long-lived object exactly as it was. For nan the check asserts only that every path gives the constructor's verdict (finding F39, fixed). The count part enumerates every subset of modes x detectors and pairs whose second section has no body.",
    },
    "C08": {
        "technique": "property-based testing: keys enumerated from generated processors (valid) and derived by mutation (invalid); full-settings snapshot before/after each assignment; harness's own literal-denotation parser as reference; every entry point exercised for invalid keys",
        "text": "For generated processors every valid key kind (detector geometry/environment/characteristics fields, model arguments, enabled flags) is assigned values of all shapes; "
                "the snapshot of all settings must change in exactly that key to the value the text literally denotes, get/has must agree. Mutated keys must be refused by Processor.set, "
                "sequential and dask observations (product/sequential), and run_mode overrides before any probe model runs and without inventing attributes; sweeping an argument of a disabled model must raise. Exploration.",
        "design_ref": "DESIGN.md section 3, C08",
        "note": "Ambiguous textual spellings (quotes, blanks, hex, True/None) are not generated. Calibration entry point for invalid keys is exercised in C10. Part 'nested': keys inside mapping- / list-of-mappings-valued arguments over a generated history of set / replace / create_new_processor / deepcopy on a pool of processors (finding F35, fixed). The nested part also issues misspelt nested keys, which set / replace must refuse. List values draw explicit zero elements (falsy but valid). For a model's enabled flag the texts 'True' / 'False' are assigned too (what a command-line override passes). List texts with quoted elements denote lists of strings. Part 'command_line': pyxel.run(<yaml file>, override=['key=text', ...]) - the path `pyxel run --override` takes - with tracing models as observers.",
    },
    "C05": {
        "technique": "property-based testing: generated parameter spaces (product / sequential / custom, scalar and vector parameters, colliding names, numpy expressions, disabled parameters) against itertools reference enumerators; echo probes encode received values so that label-based selection is checkable",
        "text": "Every generated space is run on the sequential and the dask (synchronous) path; the multiset (and for the sequential path the order) of states the probes received must equal "
                "the reference space and, for each reference run, the result entry selected by that run's labels must hold that run's encoding. Custom tables are generated in txt/csv/npy with "
                "surrounding columns and optional column_range. Exploration.",
        "design_ref": "DESIGN.md section 3, C05",
        "note": "Known finding K1 (sequential mode + dask + >=2 parameters) is excluded from the generator and probed separately. The dask path's single metadata run is subtracted. Part 'rerun': the same Observation object is run again after other values were configured on detector / pipeline. An enumerated part gives value lists as short numpy expressions denoting 21..25 values; the spaces also contain a text-valued argument and an entry inside a mapping-valued argument. Two expressions of tiny magnitudes (1e-16..1e-10) are enumerated. Custom mode includes tables of text cells only (a text-valued parameter).",
    },
    "C06": {
        "technique": "differential property-based testing: each run of a generated sweep against a standalone exposure the harness builds from the JSON spec; deep structural before/after snapshots of the caller's objects; pipelines with state-keeping, argument-mutating and failing models",
        "text": "Generated sweeps (product / sequential / custom; sequential and dask path; 1..3 steps; destructive or not; caller's detector optionally carrying memory and bucket contents; optionally one failing run) "
                "run over a pipeline with a detector-memory probe, an in-place argument mutator and the library's simple_persistence. Every run's pixel/signal/image entry must equal the standalone exposure with "
                "that run's values, failing runs must not affect their neighbours on the dask path, and the snapshot of detector, pipeline, readout and mode must be unchanged after the call, also when it raised. Exploration.",
        "design_ref": "DESIGN.md section 3, C06",
        "note": "Part 'calibration': real calibration runs (sade/sga, 1..2 islands, 1..2 targets, 1..3 readouts) over the same state-keeping pipeline with a recording fitness function; sampled candidates and the champions' returned data must equal the standalone exposure with the values the probe received; caller's objects unchanged. K1 class excluded as in C05. An ndarray-valued model argument that its model modifies in place is part of half of the pipelines (Python API only). In sequential mode the ndarray-valued argument may itself be a swept key (findings F37, F38, fixed).",
    },
    "C09": {
        "level": "fault_enumeration",
        "technique": "fault injection with exhaustive enumeration of the fault site (run, step, model position) for Hypothesis-generated pipelines, modes and exception classes; oracle on the propagated exception chain and on the probe call log",
        "text": "For each generated configuration (2..4 models in 1..3 groups, 1..3 steps, 1..3 runs, 12 exception classes, exposure / debug / sequential / dask-synchronous / dask-threads) every fault site is "
                "executed: the call or compute() must raise with the unique token, the injected type, group and model name and (sequentially) the run's parameter values; no result object, no later call, "
                "no computable bucket of the failing run. Fault enumeration: complete per configuration, configurations sampled.",
        "design_ref": "DESIGN.md section 3, C09",
        "note": "Calibration-phase faults are enumerated in the calibration part once registered. The dask metadata run may surface the fault at run_mode. Entry points: pyxel.run_mode, pyxel.run(<yaml>) with and without an outputs section, pyxel.exposure_mode / observation_mode (finding F36, fixed; the parameter-value note is asserted only behind run_mode / run, where the property places it). A third of the configurations raise the very same exception object at every site. A third of the configurations set a working directory on the running mode. Exception classes include one whose constructor arguments are not its args and a FileNotFoundError carrying a file name. Every exception class x six kinds of running mode is enumerated on one fixed two-model pipeline on every run.",
    },
    "C19": {
        "technique": "property-based testing of generated start histories with a harness-owned clock (same-second starts constructed), barrier-released concurrent starts and pre-populated colliding names; read-back differential of every reported file against the result bucket with the same label; before/after content hash of pre-existing files",
        "text": "Histories of 1..6 starts (exposure, sequential and dask observation; generated save lists over 5 buckets x fits/npy/jpg; custom directory prefix) write into one parent folder that already contains "
                "directories and a plain file with the next candidate names; the clock inside pyxel.outputs is replaced so that timestamps are equal or increasing as generated, and groups of starts run concurrently in "
                "threads. Each start must get a fresh distinct folder, nothing pre-existing may change, every reported file must exist, sit in its run's folder and (fits/npy) equal the labelled bucket, counts must match. Exploration.",
        "design_ref": "DESIGN.md section 3, C19",
        "note": "The fake clock is installed from outside (attribute of pyxel.outputs.outputs) in the check's own process; no source hook. jpg: existence only. Part 'legacy_exposure': auto-numbered per-readout files of pyxel.exposure_mode for 1..14 readouts. A quarter of the starts first load a raw unsigned 16-bit FITS frame with include_header (its scaling keywords end up on the detector). Part 'legacy_observation': per-run files of pyxel.observation_mode, sequentially and under a thread pool with data-dependent delays. A quarter of the sequential starts are repeated on the same objects after their save list was replaced.",
    },
    "C10": {
        "technique": "property-based testing against a reference model of the decision-vector <-> parameter mapping (bounds, log10 / 10** conversion, slicing) at the pygmo-problem level, plus box / applied-values invariants over the evaluation log of real calibration runs",
        "text": "Generated mixes of scalar and vector, linear and logarithmic variables with shared or per-component boundaries: get_bounds, convert_to_parameters (1-D, 2-D) and the values a logging probe "
                "receives for decision vectors in the box and at its corners are compared with the harness's reference; short sade / sga / nlopt runs (1..2 islands, topologies, seeds) must keep every evaluation and "
                "every reported champion / best decision inside the declared box, report parameters == convert(decision), report champions that were really evaluated, and leave the caller's objects unchanged. Exploration.",
        "design_ref": "DESIGN.md section 3, C10",
        "note": "The problem object is built exactly as Calibration.run_calibration builds it. Synchronous dask scheduler (schedulers are C07's subject). Half of the run cases run the same objects a second time; the champions' returned data is compared with the probe's analytic frame for the reported parameters (finding F34, fixed). A third of the vector variables are declared with a tuple of placeholders (Python API). Vector variables may have exactly one placeholder. Logarithmic boundaries reach down to 1e-20.",
    },
    "C11": {
        "technique": "property-based testing against a numpy re-implementation of the three fitness functions on analytically recomputed simulated data; accept/reject classification of generated fit-range pairs; re-simulation differential of reported champions in real runs",
        "text": "Generated targets (npy/fits/txt, 2-D or cubes), 1..3 target/input pairs, fit-range classes (default, full, equal sub-range, shifted, unequal extent, exceeding the target; 4- and 6-element), "
                "scalar or file weights and the three built-in fitness functions: problem.fitness(dv) must equal the declared figure of merit recomputed in the harness; invalid range pairs must be refused before any "
                "evaluation and valid ones accepted. In short real runs the reported champion fitness must be reproduced by re-simulating the reported parameters, /simulated and /full_size must be computable and equal "
                "the re-simulation, and the champion fitness must not increase over evolutions. Exploration.",
        "design_ref": "DESIGN.md section 3, C11",
        "note": "Tolerance 1e-9 relative. reduced chi-squared with fewer data points than free parameters is outside its domain (counted as excluded). Half of the run cases calibrate a stochastic pipeline under a declared pipeline_seed (one island; parallel islands race on the global generator = K2). A third of the run cases rewrite the target / weight files and calibrate again in the same process. Half of the run cases declare the fit ranges after construction (attributes or run_mode override). The run part draws sade, sga and NLopt with every selection / replacement policy over 2..5 evolutions.",
    },
    "C04": {
        "technique": "property-based testing: (a) seeding helper against a private RandomState and state identity, (b) introspection-discovered seeded models run twice from different generator states, (c) generated stochastic pipelines re-run from different prior states / process histories in every mode, (d) injectivity-based leak detector for unseeded random models",
        "text": "The seeding context manager is compared with numpy's own RandomState for generated seeds, prior states, nesting and raising bodies; all functions of pyxel.models with a seed parameter (discovered by introspection, 13 with recipes, "
                "4 listed as skipped) must be reproducible and state-preserving; generated pipelines of the stochastic library models with a pipeline_seed must give bit-identical result trees in exposure, sequential and dask "
                "observation and calibration from different prior states, after unseeded or failing runs, and restore the generator also when a model raises; unseeded random models must not re-seed the process. Exploration.",
        "design_ref": "DESIGN.md section 3, C04",
        "note": "Dask paths on the synchronous scheduler (threaded race = C07's known finding K2). Every model with a seed argument has a recipe (17 models, 34 option variants incl. charge_deposition with tabulated spectra, cosmix, nghxrg), each option variant taking another random-number path. pulse_processing's minutes-long phase conversion is stubbed from outside. The ends of both seed ranges (pipeline_seed 0 / 2^32-1, pygmo_seed 0 / 1 / 100000) are enumerated for calibration. Half of the run cases repeat the run on the very same detector / pipeline / mode objects instead of rebuilding them. A third of the 'runs' cases write outputs into one parent folder (the second start finds the first one's folder name taken). Every seeded model is also called on a detector standing at the second of three readouts. Every stochastic library model followed by a later stochastic probe is exposed twice on the very same objects on every run (enumerated).",
    },
    "C07": {
        "technique": "differential property-based testing: with_dask result under generated schedulers (synchronous, thread pools of 1/2/4/16, process pools of 2/4) with data-dependent delays vs the sequential result, compared label by label; harness-owned schedule (barrier) for the known seeding race; calibration outcome differential across schedulers and island-creation modes",
        "text": "Generated parameter spaces run sequentially and with_dask under sampled schedulers and worker counts, with a value-dependent delay probe perturbing completion order, deterministic or seeded-stochastic pipelines, "
                "outputs on or off: every bucket and every reported file must agree with the sequential result at the same label. Calibrations with fixed seeds (1..3 unconnected islands) must report identical champions under the "
                "synchronous scheduler, thread pools of 4 and 16 and with serial island creation. Exploration: free-running pools are sampled, the oracle is schedule independent.",
        "design_ref": "DESIGN.md section 3, C07",
        "note": "Known findings K1 (sequential mode, >=2 parameters) and K2 (seeded stochastic pipelines under threads; made deterministic with a barrier) are excluded from the generator and probed. Connected island topologies use pygmo's asynchronous migration and are not asserted. Part 'short_name_collisions' enumerates every declaration order of two parameters sharing a short name and a third one. A quarter of the pipelines contain a model that keeps memory on the detector. Every pipeline also lists a disabled model that would change the pixels (it must stay off in every worker).",
    },
}
