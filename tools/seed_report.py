#!/venv/bin/python
"""Compile /verif/seeded/*/meta.json into seeded/README.md."""
import json
from pathlib import Path

root = Path("/verif/seeded")
rows = []
for d in sorted(root.iterdir()):
    mf = d / "meta.json"
    if not mf.exists():
        continue
    m = json.loads(mf.read_text())
    q = m.get("quick_checks_against_change", {})
    caught = [c for c, v in q.items() if v["exit"] == 1]
    missed = [c for c, v in q.items() if v["exit"] != 1]
    needs = m.get("needs", "")
    rows.append((d.name, m.get("property"), "yes" if m.get("confirmed") else "NO", ", ".join(caught) or "-", ", ".join(missed) or "-", needs, m.get("history", "")))
out = ["# Independently seeded breaking changes", "",
       "Each directory holds `patch.diff` (apply with `git -C /repo apply`), `demo.py` (exit 0 on the unchanged tree, non-zero with the change),",
       "`NOTES.md` (the author's description) and `meta.json` (what was run to confirm it: demo on clean / changed scratch worktree, the complete",
       "pinned test-suite on the changed tree, and the quick checks run against the changed tree with `VERIF_REPO`). The changes were written by",
       "sub-agents that saw only the property text and their own scratch worktree. None of them is applied to /repo.", "",
       "| seeded change | property | confirmed | caught by (quick) | not caught by | what it needs to manifest | history |", "|---|---|---|---|---|---|---|"]
for r in rows:
    out.append("| " + " | ".join(str(x).replace("|", "/") for x in r) + " |")
(root / "README.md").write_text("\n".join(out) + "\n")
print("\n".join(out[-len(rows):]))
