#!/venv/bin/python
"""Run the repository's pinned test-suite (guard off) and compare with BASELINE.json's stable_pass set."""
import json, os, subprocess, sys, tempfile, xml.etree.ElementTree as ET

out = tempfile.mktemp(suffix=".junit.xml")
repo = sys.argv[1] if len(sys.argv) > 1 else "/repo"
env = dict(os.environ); env.pop("PYXEL_VERIF", None)
if repo != "/repo":
    env["PYTHONPATH"] = repo  # import the scratch tree's pyxel instead of the editable install
cmd = ["/venv/bin/python", "-m", "pytest", "-q", "-p", "no:cacheprovider", "--timeout=900",
       "--continue-on-collection-errors", f"--junitxml={out}"]
p = subprocess.run(cmd, cwd=repo, env=env, capture_output=True, text=True)
passed = set()
for tc in ET.parse(out).getroot().iter("testcase"):
    if not any(ch.tag in ("failure", "error", "skipped") for ch in tc):
        passed.add(f"{tc.get('classname')}::{tc.get('name')}")
os.unlink(out)
base = json.load(open("/root/.vp/BASELINE.json"))
want = set(base["stable_pass"])
missing = sorted(want - passed)
print(p.stdout.strip().splitlines()[-1])
print(f"baseline stable_pass={len(want)} passed_now={len(passed)} missing={len(missing)}")
for m in missing[:40]:
    print("  MISSING", m)
sys.exit(1 if missing else 0)
