#!/venv/bin/python
"""Confirm an independently seeded breaking change and record it under /verif/seeded/<name>/.

  tools/verify_seed.py <name> <property> <dir with patch.diff, demo.py, NOTES.md> [--checks C01 C02 ...] [--skip-suite]

Steps (all in a scratch worktree of /repo outside /repo and /verif, removed afterwards):
  1. demo on the clean tree must exit 0;  2. `git apply patch.diff`;  3. demo must exit non-zero;
  4. the pinned test-suite must still have its 1969 stable-pass tests passing;
  5. the listed quick checks are run against the changed tree (VERIF_REPO) - which ones report a VIOLATION is recorded.
"""
import argparse, json, os, shutil, subprocess, sys
from pathlib import Path

ap = argparse.ArgumentParser()
ap.add_argument("name"); ap.add_argument("prop"); ap.add_argument("src")
ap.add_argument("--checks", nargs="*"); ap.add_argument("--skip-suite", action="store_true"); ap.add_argument("--recheck", action="store_true", help="only re-run the quick checks against the stored patch and update meta.json"); ap.add_argument("--seed", default="1")
a = ap.parse_args()
src = Path(a.src)
old = {}
_mf = Path("/verif/seeded") / a.name / "meta.json"
if _mf.exists():
    old = json.loads(_mf.read_text())
wt = Path(f"/tmp/vseed_{a.name}")
subprocess.run(["git", "-C", "/repo", "worktree", "remove", "--force", str(wt)], capture_output=True)
subprocess.run(["git", "-C", "/repo", "worktree", "add", "-q", "--detach", str(wt), "HEAD"], check=True)
meta = {"name": a.name, "property": a.prop, "repo_commit": subprocess.run(["git", "-C", "/repo", "rev-parse", "--short", "HEAD"], capture_output=True, text=True).stdout.strip()}
try:
    env = dict(os.environ, PYTHONPATH=str(wt), TQDM_DISABLE="1")
    def demo():
        return subprocess.run(["/venv/bin/python", str(src / "demo.py")], cwd=str(wt), env=env, capture_output=True, text=True, timeout=1800)
    if a.recheck:
        meta = dict(old, repo_commit=meta["repo_commit"])
    else:
        r0 = demo()
        meta["demo_on_clean_tree_exit"] = r0.returncode
    ap_ = subprocess.run(["git", "-C", str(wt), "apply", str(src / "patch.diff")], capture_output=True, text=True)
    if ap_.returncode:
        print("patch does not apply:", ap_.stderr); meta["patch_applies"] = False
    else:
        meta["patch_applies"] = True
        imp = subprocess.run(["/venv/bin/python", "-c", "import pyxel, pyxel.calibration, pyxel.models"], cwd=str(wt), env=env, capture_output=True, text=True)
        meta["imports"] = imp.returncode == 0
        if not a.recheck:
            r1 = demo()
            meta["demo_on_changed_tree_exit"] = r1.returncode
            meta["demo_tail"] = (r1.stdout + r1.stderr)[-600:]
        if not a.skip_suite and not a.recheck:
            b = subprocess.run(["/verif/tools/baseline.py", str(wt)], capture_output=True, text=True)
            meta["suite"] = b.stdout.strip().splitlines()[-1] if b.stdout.strip() else b.stderr[-300:]
            meta["suite_ok"] = b.returncode == 0
        caught = {}
        for c in (a.checks or [a.prop]):
            env2 = dict(os.environ, VERIF_REPO=str(wt), VERIF_SEED=a.seed)
            r = subprocess.run(["/verif/run_check.py", c, "--tier", "quick"], env=env2, capture_output=True, text=True, cwd="/verif")
            sigs = [l.strip() for l in r.stdout.splitlines() if l.strip().startswith("signature=")]
            caught[c] = {"exit": r.returncode, "signatures": [s[:200] for s in sigs[:6]]}
            for f in Path("/verif/replays", c).glob("found_*.json"):
                f.unlink()
        prev = dict(old.get("quick_checks_against_change", {})) if a.recheck else {}
        if a.recheck and "first_version_of_check" not in meta:
            meta["first_version_of_check"] = {c: v["exit"] for c, v in prev.items()}
        prev.update(caught)
        meta["quick_checks_against_change"] = prev
        meta["checks_at_verif_commit"] = subprocess.run(["git", "-C", "/verif", "rev-parse", "--short", "HEAD"], capture_output=True, text=True).stdout.strip()
    dest = Path("/verif/seeded") / a.name
    dest.mkdir(parents=True, exist_ok=True)
    for k in ("needs", "history"):
        if k in old and k not in meta:
            meta[k] = old[k]
    for f in ("patch.diff", "demo.py", "NOTES.md"):
        if (src / f).exists() and (src / f).resolve() != (dest / f).resolve():
            shutil.copy(src / f, dest / f)
    confirmed = meta.get("confirmed") if a.recheck else meta.get("patch_applies") and meta.get("imports") and meta.get("demo_on_clean_tree_exit") == 0 and meta.get("demo_on_changed_tree_exit", 0) != 0 and meta.get("suite_ok", a.skip_suite)
    meta["confirmed"] = bool(confirmed)
    (dest / "meta.json").write_text(json.dumps(meta, indent=1))
    print(json.dumps(meta, indent=1))
finally:
    subprocess.run(["git", "-C", "/repo", "worktree", "remove", "--force", str(wt)], capture_output=True)
