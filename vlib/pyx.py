"""Thin glue between JSON run specs and pyxel's public API (Python objects or a YAML file)."""

from __future__ import annotations

import contextlib
import copy
import os
from dataclasses import dataclass
from pathlib import Path
from typing import Any

from vlib.gen_detector import build_detector, detector_yaml_dict
from vlib.gen_pipeline import build_pipeline, pipeline_yaml_dict


@dataclass
class Cfg:
    detector: Any
    pipeline: Any
    mode: Any
    spec: dict
    yaml_text: str | None = None


def _readout_kwargs(spec: dict) -> dict:
    kw = {}
    if spec.get("readout") is not None:
        kw.update(copy.deepcopy(spec["readout"]))
    if spec.get("times") is not None:
        kw["times"] = copy.deepcopy(spec["times"])
    if spec.get("times_from_file") is not None:
        kw["times_from_file"] = spec["times_from_file"]
    if spec.get("start_time") is not None:
        kw["start_time"] = spec["start_time"]
    if spec.get("non_destructive") is not None:
        kw["non_destructive"] = spec["non_destructive"]
    return kw


def _outputs_dict(o: dict | None):
    if not o:
        return None
    return {k: copy.deepcopy(v) for k, v in o.items()}


def mode_yaml_dict(spec: dict) -> dict:
    m = spec["mode"]
    kind = m["kind"]
    d: dict = {}
    rk = _readout_kwargs(spec)
    if rk or kind != "calibration":
        d["readout"] = rk
    if spec.get("pipeline_seed") is not None:
        d["pipeline_seed"] = spec["pipeline_seed"]
    if spec.get("working_directory"):
        d["working_directory"] = spec["working_directory"]
    if spec.get("outputs"):
        d["outputs"] = _outputs_dict(spec["outputs"])
    if spec.get("result_type"):
        d["result_type"] = spec["result_type"]
    if kind == "observation":
        d["parameters"] = [copy.deepcopy(p) for p in m["parameters"]]
        for k in ("mode", "with_dask", "from_file", "column_range"):
            if m.get(k) is not None:
                d[k] = copy.deepcopy(m[k])
    elif kind == "calibration":
        for k, v in m.items():
            if k != "kind":
                d[k] = copy.deepcopy(v)
    return {kind: d}


def yaml_document(spec: dict) -> str:
    import random
    import yaml

    doc = {}
    doc.update(mode_yaml_dict(spec))
    doc.update(detector_yaml_dict(spec["detector"]))
    doc["pipeline"] = pipeline_yaml_dict(spec["pipeline"])
    rnd = random.Random(spec["pipeline"].get("yaml_perm", 0))
    keys = list(doc)
    rnd.shuffle(keys)
    doc = {k: doc[k] for k in keys}
    return yaml.safe_dump(doc, sort_keys=False, default_flow_style=None)


def build_mode(spec: dict):
    from pyxel.exposure import Exposure, Readout
    from pyxel.observation import Observation, ParameterValues

    m = spec["mode"]
    kind = m["kind"]
    common = {}
    if spec.get("pipeline_seed") is not None:
        common["pipeline_seed"] = spec["pipeline_seed"]
    if spec.get("working_directory") and kind != "calibration":
        common["working_directory"] = spec["working_directory"]
    if spec.get("result_type"):
        common["result_type"] = spec["result_type"]
    if kind == "exposure":
        outputs = None
        if spec.get("outputs"):
            from pyxel.outputs import ExposureOutputs

            outputs = ExposureOutputs(**_outputs_dict(spec["outputs"]))
        return Exposure(readout=Readout(**_readout_kwargs(spec)), outputs=outputs, **common)
    if kind == "observation":
        outputs = None
        if spec.get("outputs"):
            from pyxel.outputs import ObservationOutputs

            outputs = ObservationOutputs(**_outputs_dict(spec["outputs"]))
        params = [ParameterValues(**copy.deepcopy(p)) for p in m["parameters"]]
        kw = {}
        for k in ("mode", "with_dask", "from_file"):
            if m.get(k) is not None:
                kw[k] = m[k]
        if m.get("column_range") is not None:
            kw["column_range"] = tuple(m["column_range"])
        return Observation(parameters=params, readout=Readout(**_readout_kwargs(spec)), outputs=outputs, **kw, **common)
    if kind == "calibration":
        from vlib import pyx_cal

        return pyx_cal.build_calibration(spec)
    raise ValueError(kind)


def build(spec: dict, render: str = "python", tmp: Path | None = None) -> Cfg:
    if render == "yaml":
        import pyxel

        text = yaml_document(spec)
        path = Path(tmp or ".") / "config.yaml"
        path.write_text(text)
        cfg = pyxel.load(path)
        return Cfg(detector=cfg.detector, pipeline=cfg.pipeline, mode=cfg.running_mode, spec=spec, yaml_text=text)
    return Cfg(detector=build_detector(spec["detector"]), pipeline=build_pipeline(spec["pipeline"]),
               mode=build_mode(spec), spec=spec)


@contextlib.contextmanager
def scheduler(kind: str | None = "synchronous", workers: int | None = None):
    import dask

    if kind is None:
        yield
        return
    if kind == "synchronous":
        with dask.config.set(scheduler="synchronous"):
            yield
    elif kind == "threads":
        from concurrent.futures import ThreadPoolExecutor

        pool = ThreadPoolExecutor(max_workers=workers or 4)
        try:
            with dask.config.set(scheduler="threads", pool=pool):
                yield
        finally:
            pool.shutdown(wait=True)
    elif kind == "processes":
        with dask.config.set(scheduler="processes", num_workers=workers or 2):
            yield
    else:
        raise ValueError(kind)


def run(cfg: Cfg, debug: bool = False, sync: bool = True, with_inherited_coords: bool | None = None,
        sched: str | None = None, workers: int | None = None, compute: bool = True, override_dct=None, entry: str = "run_mode"):
    """Run and (for lazily evaluated results) load everything, so failures surface here.

    entry="legacy": the older public entry points pyxel.exposure_mode / pyxel.observation_mode (deprecated, still exported).
    """
    import pyxel

    if entry == "legacy":
        import warnings

        from pyxel.exposure import Exposure

        with scheduler(sched if sched is not None else ("synchronous" if sync else None), workers), warnings.catch_warnings():
            warnings.simplefilter("ignore", FutureWarning)
            warnings.simplefilter("ignore", DeprecationWarning)
            if isinstance(cfg.mode, Exposure):
                return pyxel.exposure_mode(exposure=cfg.mode, detector=cfg.detector, pipeline=cfg.pipeline)
            return pyxel.observation_mode(observation=cfg.mode, detector=cfg.detector, pipeline=cfg.pipeline)

    if with_inherited_coords is None:
        with_inherited_coords = bool(getattr(cfg.mode, "with_dask", False))
    kw = {}
    if override_dct is not None:
        kw["override_dct"] = override_dct
    # progress bars are silenced through TQDM_DISABLE (set by the runner): no process-global stream redirection here,
    # checks call this function from several threads
    with scheduler(sched if sched is not None else ("synchronous" if sync else None), workers):
        result = pyxel.run_mode(mode=cfg.mode, detector=cfg.detector, pipeline=cfg.pipeline, debug=debug,
                                with_inherited_coords=with_inherited_coords, **kw)
        if compute and getattr(cfg.mode, "with_dask", False):
            result = result.compute()
    return result
