"""Runner: sharding, seeding, failure bucketing, shrinking, replay, evidence, exit codes.

A check module (checks/cXX.py) defines

    PROPERTY = "C13"
    LEVEL    = "exploration"            # or "fault_enumeration"
    RULE     = "<how cases are generated and what makes one non-trivial>"
    ASSUMPTIONS = [...]
    PARTS    = {"name": body}           # body(case, rec) -> None ; case is plain JSON
    def plan(tier) -> list[Part]        # what to run: generated and enumerated parts
    def known_key(part, clause, case, detail) -> str | None   # optional

The parent process starts N worker processes (fresh interpreters, so /repo's current
working tree is imported anew), merges their results, shrinks one representative per failure
signature, writes replay files and the evidence file, prints VIOLATION / KNOWN-FINDING
lines, and exits 0 / 1 / 2 (2 = harness error, never a verdict about the property).
"""

from __future__ import annotations

import contextlib
import hashlib
import importlib
import json
import os
import shutil
import subprocess
import sys
import tempfile
import time
import traceback
from dataclasses import dataclass, field
from pathlib import Path
from typing import Any, Callable

VERIF = Path(__file__).resolve().parent.parent
REPO = Path(os.environ.get("VERIF_REPO", "/repo"))
PY = os.environ.get("VERIF_PYTHON", "/venv/bin/python")


# --------------------------------------------------------------------------- utilities
def canon(obj: Any) -> str:
    return json.dumps(obj, sort_keys=True, separators=(",", ":"), default=_json_default)


def _json_default(o):
    import numpy as np

    if isinstance(o, (np.integer,)):
        return int(o)
    if isinstance(o, (np.floating,)):
        return float(o)
    if isinstance(o, np.ndarray):
        return o.tolist()
    if isinstance(o, (set, frozenset, tuple)):
        return list(o)
    return repr(o)


def chash(obj: Any) -> str:
    return hashlib.sha1(canon(obj).encode()).hexdigest()[:16]


def derive_seed(seed: int, shard: int, part: str) -> int:
    h = hashlib.sha256(f"{seed}/{shard}/{part}".encode()).digest()
    return int.from_bytes(h[:4], "big")


class HarnessError(Exception):
    """Something is wrong with the machinery (never a verdict about the property)."""


# --------------------------------------------------------------------------- recorder
class Rec:
    """Per-case recorder handed to a check body."""

    def __init__(self):
        self.failures: list[tuple[str, str]] = []
        self.classes: list[str] = []
        self.nontrivial = False
        self.excluded: list[str] = []
        self.tmp: Path | None = None
        self.subcases: list[tuple[str, bool]] = []  # executions enumerated inside one generated case (e.g. fault sites)

    def sub(self, subcase: Any, nontrivial: bool = True):
        """Register one enumerated sub-execution of this case (counted as an evaluation of its own)."""
        self.subcases.append((chash(subcase), bool(nontrivial)))

    def cls(self, *names: str):
        self.classes.extend(names)

    def nt(self, flag: bool = True):
        if flag:
            self.nontrivial = True

    def exclude(self, kind: str):
        self.excluded.append(kind)

    def fail(self, clause: str, detail: str = ""):
        self.failures.append((clause, str(detail)[:2000]))

    def check(self, cond: bool, clause: str, detail: str | Callable[[], str] = ""):
        if not cond:
            self.fail(clause, detail() if callable(detail) else detail)
        return bool(cond)

    @contextlib.contextmanager
    def must_not_raise(self, clause: str):
        """Valid input: an exception here is an oracle failure of `clause`."""
        try:
            yield
        except HarnessError:
            raise
        except Exception as exc:  # noqa: BLE001
            # bucket by (clause, exception type, innermost pyxel frame): one signature per root cause
            self.fail(f"{clause}:{type(exc).__name__}@{innermost_frame(exc)}", "raised " + describe_exc(exc))

    def raises(self, clause: str, fn: Callable[[], Any], detail: str = "") -> Exception | None:
        """Invalid input: `fn` must raise an Exception; returns it (or records a failure)."""
        try:
            fn()
        except Exception as exc:  # noqa: BLE001
            return exc
        self.fail(clause, "no exception raised " + detail)
        return None


def innermost_frame(exc: BaseException) -> str:
    for fr in reversed(traceback.extract_tb(exc.__traceback__)):
        if "/pyxel/" in fr.filename:
            return f"{Path(fr.filename).name}:{fr.name}"
    return "-"


def describe_exc(exc: BaseException) -> str:
    tb = traceback.extract_tb(exc.__traceback__)
    frame = ""
    for fr in reversed(tb):
        if "/pyxel/" in fr.filename:
            frame = f" at {Path(fr.filename).name}:{fr.name}"
            break
    notes = getattr(exc, "__notes__", None)
    return f"{type(exc).__name__}: {str(exc)[:300]}{frame}" + (f" notes={notes}" if notes else "")


def exc_chain_text(exc: BaseException) -> str:
    """All text a caller can see from an exception: messages, notes, causes, contexts."""
    seen, out, todo = set(), [], [exc]
    while todo:
        e = todo.pop()
        if e is None or id(e) in seen:
            continue
        seen.add(id(e))
        out.append(type(e).__name__)
        out.append(str(e))
        out.extend(str(n) for n in getattr(e, "__notes__", []) or [])
        todo.append(e.__cause__)
        if not e.__suppress_context__:  # "raise X from None" hides the context from what the caller is shown
            todo.append(e.__context__)
        if isinstance(e, BaseExceptionGroup):
            todo.extend(e.exceptions)
    return "\n".join(out)


# --------------------------------------------------------------------------- plan parts
@dataclass
class Part:
    name: str  # key into module.PARTS
    kind: str  # "gen" | "enum"
    strategy: Callable[[], Any] | None = None  # gen: () -> hypothesis strategy of JSON cases
    examples: int = 100  # gen: examples per shard
    cases: Callable[[], list] | None = None  # enum: () -> list of JSON cases
    shards: int | None = None  # limit shards for this part
    exhaustive: bool = False
    label: str | None = None  # distinguishes several plan entries of one PARTS body

    @property
    def key(self) -> str:
        return self.label or self.name


# --------------------------------------------------------------------------- worker side
def reset_globals():
    """pyxel's and numpy's process-global state, reset at the top of every case."""
    try:
        from pyxel.options import global_options

        global_options.working_directory = None
    except Exception:  # noqa: BLE001
        pass
    try:
        from pyxel.util import image as _img

        for nm in ("load_cropped_and_aligned_image", "_load_cropped_and_aligned_image"):
            fn = getattr(_img, nm, None)
            if fn is not None and hasattr(fn, "cache_clear"):
                fn.cache_clear()
    except Exception:  # noqa: BLE001
        pass
    import logging

    logging.getLogger("pyxel").setLevel(logging.WARNING)
    logging.getLogger().setLevel(logging.WARNING)


class WorkerState:
    def __init__(self, module, shard: int, nshards: int, tier: str, seed: int, scratch: Path):
        self.module, self.shard, self.nshards, self.tier, self.seed = module, shard, nshards, tier, seed
        self.scratch = scratch
        self.evaluations = 0
        self.nontrivial: set[str] = set()
        self.classes: dict[str, int] = {}
        self.excluded: dict[str, int] = {}
        self.failures: dict[str, dict] = {}  # signature -> {part, clause, detail, case, size, count}
        self.samples: list = []
        self.per_part: dict[str, int] = {}
        self.hyp_stats: dict[str, Any] = {}
        self.inconclusive: list[str] = []

    def run_case(self, part: str, body, case, *, label: str | None = None, collect=True) -> list[tuple[str, str]]:
        reset_globals()
        rec = Rec()
        casedir = Path(tempfile.mkdtemp(prefix="case_", dir=self.scratch))
        rec.tmp = casedir
        cwd = os.getcwd()
        os.chdir(casedir)
        try:
            body(case, rec)
        finally:
            os.chdir(cwd)
            shutil.rmtree(casedir, ignore_errors=True)
        if not collect:
            return rec.failures
        self.evaluations += max(1, len(rec.subcases))
        self.per_part[label or part] = self.per_part.get(label or part, 0) + max(1, len(rec.subcases))
        for h, nt in rec.subcases:
            if nt:
                self.nontrivial.add(chash([part, h]))
        for c in rec.classes:
            self.classes[c] = self.classes.get(c, 0) + 1
        for c in rec.excluded:
            self.excluded[c] = self.excluded.get(c, 0) + 1
        if rec.nontrivial:
            self.nontrivial.add(chash([part, case]))
        n = self.evaluations
        if n <= 2 or (n & (n - 1)) == 0:  # 1,2,4,8,… : a spread of samples
            self.samples.append({"part": part, "case": case, "nontrivial": rec.nontrivial})
            self.samples = self.samples[-12:]
        for clause, detail in rec.failures:
            sig = f"{part}/{clause}"
            key = None
            kk = getattr(self.module, "known_key", None)
            if kk is not None:
                key = kk(part, clause, case, detail)
            if key:
                sig += f"#{key}"
            size = len(canon(case))
            cur = self.failures.get(sig)
            if cur is None or size < cur["size"]:
                self.failures[sig] = {
                    "part": part,
                    "clause": clause,
                    "detail": detail,
                    "case": case,
                    "size": size,
                    "known_key": key,
                    "count": (cur["count"] if cur else 0) + 1,
                }
            else:
                cur["count"] += 1
        return rec.failures


def _hyp_settings(max_examples: int, shrink: bool = False):
    from hypothesis import HealthCheck, Phase, settings

    phases = [Phase.generate] + ([Phase.shrink] if shrink else [])
    return settings(
        max_examples=max_examples,
        database=None,
        deadline=None,
        derandomize=False,
        report_multiple_bugs=False,
        phases=phases,
        suppress_health_check=[HealthCheck.too_slow, HealthCheck.data_too_large, HealthCheck.filter_too_much],
        print_blob=False,
    )


def worker_main(prop: str, tier: str, shard: int, nshards: int, outdir: str, seed: int) -> int:
    import warnings

    warnings.simplefilter("ignore")
    module = importlib.import_module(f"checks.{prop.lower()}")
    scratch = Path(tempfile.mkdtemp(prefix=f"vf_{prop}_{shard}_"))
    ws = WorkerState(module, shard, nshards, tier, seed, scratch)
    t0 = time.time()
    status = "ok"
    err = ""
    try:
        for part in module.plan(tier):
            if part.shards is not None and shard >= part.shards:
                continue
            eff_shards = min(nshards, part.shards) if part.shards else nshards
            body = module.PARTS[part.name]
            if part.kind == "enum":
                cases = part.cases()
                for i, case in enumerate(cases):
                    if i % eff_shards == shard:
                        ws.run_case(part.name, body, case, label=part.key)
            else:
                import hypothesis
                from hypothesis import given

                strat = part.strategy()

                def _mk(_b, _p):
                    def _test(case):
                        case = json.loads(canon(case))
                        ws.run_case(_p.name, _b, case, label=_p.key)

                    return _test

                t = given(strat)(_mk(body, part))
                t = hypothesis.seed(derive_seed(seed, shard, part.key))(t)
                t = _hyp_settings(part.examples)(t)
                t()
    except Exception:  # noqa: BLE001
        status = "error"
        err = traceback.format_exc()
    finally:
        shutil.rmtree(scratch, ignore_errors=True)
    out = {
        "status": status,
        "error": err,
        "shard": shard,
        "evaluations": ws.evaluations,
        "nontrivial": sorted(ws.nontrivial),
        "classes": ws.classes,
        "excluded": ws.excluded,
        "failures": ws.failures,
        "samples": ws.samples,
        "per_part": ws.per_part,
        "wall_s": time.time() - t0,
    }
    Path(outdir, f"shard_{shard}.json").write_text(json.dumps(out, default=_json_default))
    return 0 if status == "ok" else 2


@contextlib.contextmanager
def quiet_fds():
    """Silence OS-level stdout/stderr (pygmo and tqdm print from C / to stderr) while code under test runs in the parent."""
    sys.stdout.flush()
    sys.stderr.flush()
    saved = os.dup(1), os.dup(2)
    devnull = os.open(os.devnull, os.O_WRONLY)
    try:
        os.dup2(devnull, 1)
        os.dup2(devnull, 2)
        yield
    finally:
        sys.stdout.flush()
        sys.stderr.flush()
        os.dup2(saved[0], 1)
        os.dup2(saved[1], 2)
        for fd in (*saved, devnull):
            os.close(fd)


# --------------------------------------------------------------------------- shrinking
def shrink_case(module, part_name: str, clause: str, case, known_key, budget_s: float = 45.0):
    """Greedy structural delta-debugging over the JSON case (bypasses Hypothesis).

    Tries: dropping list elements, dropping dict keys, replacing numbers by simpler ones;
    keeps a candidate only if the same (clause, known_key) failure reproduces.
    """
    body = module.PARTS[part_name]
    mode = getattr(module, "SHRINK", "full")  # "full" | "records" (never touch numbers: fields constrain each other) | "none"
    if mode == "none":
        return case, True
    scratch = Path(tempfile.mkdtemp(prefix="vf_shrink_"))
    ws = WorkerState(module, 0, 1, "quick", 0, scratch)
    kk = getattr(module, "known_key", None)
    t_end = time.time() + budget_s

    def reproduces(c) -> bool:
        try:
            fails = ws.run_case(part_name, body, c, collect=False)
        except Exception:  # noqa: BLE001  (a malformed shrunk case)
            return False
        for cl, det in fails:
            if cl == clause and (kk(part_name, cl, c, det) if kk else None) == known_key:
                return True
        return False

    def candidates(c):
        # structure-preserving only: drop list elements, simplify numbers; never change types
        if isinstance(c, list):
            if c and all(isinstance(e, dict) for e in c):  # lists of records (operations, models, versions) may lose elements
                for i in range(len(c)):
                    yield c[:i] + c[i + 1 :]
            for i, v in enumerate(c):
                for sv in candidates(v):
                    yield c[:i] + [sv] + c[i + 1 :]
        elif isinstance(c, dict):
            for k, v in c.items():
                for sv in candidates(v):
                    d = dict(c)
                    d[k] = sv
                    yield d
        elif isinstance(c, bool) or mode == "records":
            return
        elif isinstance(c, int) and c not in (0, 1):
            yield 1
            yield c // 2
        elif isinstance(c, float) and c not in (0.0, 1.0):
            yield 1.0
            yield float(int(c))

    try:
        if not reproduces(case):
            return case, False
        improved = True
        seen = set()
        while improved and time.time() < t_end:
            improved = False
            for cand in candidates(case):
                if time.time() > t_end:
                    break
                seen.add(canon(case))
                if len(canon(cand)) <= len(canon(case)) and canon(cand) != canon(case) and canon(cand) not in seen and reproduces(cand):
                    case = cand
                    improved = True
                    break
        return case, True
    finally:
        shutil.rmtree(scratch, ignore_errors=True)


# --------------------------------------------------------------------------- parent side
def load_known_findings() -> list[dict]:
    p = VERIF / "known_findings.json"
    if not p.exists():
        return []
    return json.loads(p.read_text()).get("findings", [])


def worker_env() -> dict:
    env = dict(os.environ)
    env["PYTHONPATH"] = f"{REPO}:{VERIF}"
    env["PYTHONHASHSEED"] = "0"
    env["PYTHONDONTWRITEBYTECODE"] = "1"
    env["PYXEL_VERIF"] = "1"
    env["TQDM_DISABLE"] = "1"
    env.pop("NUMBA_DISABLE_JIT", None)
    env.setdefault("OMP_NUM_THREADS", "1")
    env.setdefault("OPENBLAS_NUM_THREADS", "1")
    env.setdefault("MKL_NUM_THREADS", "1")
    env.setdefault("NUMBA_NUM_THREADS", "1")
    return env


def run_replay_file(prop: str, path: str) -> int:
    import warnings

    warnings.simplefilter("ignore")
    module = importlib.import_module(f"checks.{prop.lower()}")
    data = json.loads(Path(path).read_text())
    scratch = Path(tempfile.mkdtemp(prefix="vf_replay_"))
    try:
        ws = WorkerState(module, 0, 1, "quick", 0, scratch)
        fails = ws.run_case(data["part"], module.PARTS[data["part"]], data["case"], collect=False)
    finally:
        shutil.rmtree(scratch, ignore_errors=True)
    known = {(k["property"], k["key"]): k for k in load_known_findings()}
    kk = getattr(module, "known_key", None)
    rc = 0
    for clause, detail in fails:
        key = kk(data["part"], clause, data["case"], detail) if kk else None
        ent = known.get((prop, key)) if key else None
        if ent and ent.get("status") == "known":
            print(f"KNOWN-FINDING: property={prop} {ent['what']}")
        else:
            print(f"VIOLATION property={prop} replay={path}")
            print(f"  clause={clause} detail={detail}")
            rc = 1
    if not fails:
        print(f"replay {path}: property held")
    return rc


def parent_main(prop: str, tier: str, nshards: int | None = None) -> int:
    import warnings

    warnings.simplefilter("ignore")
    os.environ["TQDM_DISABLE"] = "1"
    t0 = time.time()
    seed = int(os.environ.get("VERIF_SEED", "1") or 1)
    env = worker_env()
    sys.path[:0] = [str(REPO), str(VERIF)]
    try:
        module = importlib.import_module(f"checks.{prop.lower()}")
    except Exception:  # noqa: BLE001
        traceback.print_exc()
        print(f"HARNESS-ERROR property={prop} cannot import check module")
        return 2
    if nshards is None:
        nshards = getattr(module, "SHARDS", {}).get(tier, 8)
    nshards = max(1, min(nshards, os.cpu_count() or 1))
    outdir = Path(tempfile.mkdtemp(prefix=f"vf_{prop}_out_"))
    logdir = VERIF / "logs"
    logdir.mkdir(exist_ok=True)
    procs = []
    try:
        for i in range(nshards):
            log = open(logdir / f"{prop}_{tier}_shard{i}.log", "w")
            cmd = [PY, str(VERIF / "run_check.py"), prop, "--tier", tier, "--worker", str(i),
                   "--nshards", str(nshards), "--outdir", str(outdir)]
            procs.append((i, subprocess.Popen(cmd, env=env, stdout=log, stderr=subprocess.STDOUT, cwd=str(VERIF)), log))
        results, harness_errors = [], []
        for i, p, log in procs:
            p.wait()
            log.close()
            f = outdir / f"shard_{i}.json"
            if not f.exists():
                harness_errors.append(f"shard {i}: worker died (rc={p.returncode}), see logs/{prop}_{tier}_shard{i}.log")
                continue
            r = json.loads(f.read_text())
            if r["status"] != "ok":
                harness_errors.append(f"shard {i}: {r['error'][-1500:]}")
            results.append(r)
    finally:
        for _, p, _ in procs:
            if p.poll() is None:
                p.kill()
        shutil.rmtree(outdir, ignore_errors=True)

    # ---- regression tier: saved replays are re-run by the parent (cheap, no Hypothesis)
    evaluations = sum(r["evaluations"] for r in results)
    nontrivial = set().union(*[set(r["nontrivial"]) for r in results]) if results else set()
    classes: dict[str, int] = {}
    excluded: dict[str, int] = {}
    per_part: dict[str, int] = {}
    failures: dict[str, dict] = {}
    samples = []
    for r in results:
        for k, v in r["classes"].items():
            classes[k] = classes.get(k, 0) + v
        for k, v in r["excluded"].items():
            excluded[k] = excluded.get(k, 0) + v
        for k, v in r["per_part"].items():
            per_part[k] = per_part.get(k, 0) + v
        samples.extend(r["samples"][-3:])
        for sig, f in r["failures"].items():
            cur = failures.get(sig)
            if cur is None or f["size"] < cur["size"]:
                cnt = (cur["count"] if cur else 0) + f["count"]
                failures[sig] = dict(f, count=cnt)
            else:
                cur["count"] += f["count"]

    replay_dir = VERIF / "replays" / prop
    replayed = 0
    if replay_dir.is_dir():
        scratch = Path(tempfile.mkdtemp(prefix="vf_replay_"))
        try:
            ws = WorkerState(module, 0, 1, tier, seed, scratch)
            for rp in sorted(replay_dir.glob("*.json")):
                data = json.loads(rp.read_text())
                if data["part"] not in module.PARTS:
                    continue
                with quiet_fds():
                    ws.run_case(data["part"], module.PARTS[data["part"]], data["case"])
                replayed += 1
            evaluations += ws.evaluations
            nontrivial |= ws.nontrivial
            for sig, f in ws.failures.items():
                failures.setdefault(sig, f)
        except Exception:  # noqa: BLE001
            harness_errors.append("replay tier: " + traceback.format_exc()[-1500:])
        finally:
            shutil.rmtree(scratch, ignore_errors=True)

    # ---- verdicts
    known = {(k["property"], k["key"]): k for k in load_known_findings()}
    violations, known_hits = [], []
    for sig, f in sorted(failures.items()):
        ent = known.get((prop, f.get("known_key"))) if f.get("known_key") else None
        if ent and ent.get("status") == "known":
            known_hits.append((ent, f))
            continue
        case, ok = f["case"], True
        try:
            with quiet_fds():
                case, ok = shrink_case(module, f["part"], f["clause"], f["case"], f.get("known_key"),
                                       budget_s=30.0 if tier == "quick" else 240.0)
        except Exception:  # noqa: BLE001
            pass
        replay_dir.mkdir(parents=True, exist_ok=True)
        rp = replay_dir / f"found_{chash([sig])}.json"
        rp.write_text(json.dumps({"property": prop, "part": f["part"], "clause": f["clause"],
                                  "detail": f["detail"], "case": case, "reproduced_without_hypothesis": ok,
                                  "occurrences": f["count"]}, indent=1, default=_json_default))
        violations.append((sig, f, rp))

    printed = set()
    for ent, f in known_hits:
        if ent["key"] not in printed:
            printed.add(ent["key"])
            print(f"KNOWN-FINDING: property={prop} {ent['what']}")
    # a listed known finding whose dedicated probe no longer fails is only a note
    for (p_, key), ent in known.items():
        if p_ == prop and ent.get("status") == "known" and not any(e is ent for e, _ in known_hits):
            print(f"note: known finding {key} was not reproduced by this run")
    for sig, f, rp in violations:
        print(f"VIOLATION property={prop} replay={rp}")
        print(f"  signature={sig} occurrences={f['count']} detail={f['detail'][:400]}")

    wall = time.time() - t0
    level = getattr(module, "LEVEL", "exploration")
    plan_parts = module.plan(tier)
    exhaustive_parts = [p.key for p in plan_parts if p.exhaustive]
    coverage = {
        "evaluations": evaluations,
        "distinct_nontrivial": len(nontrivial),
        "rule": module.RULE,
        "samples": samples[:8] if samples else [],
        "classes": dict(sorted(classes.items())),
        "per_part": per_part,
        "excluded": excluded,
        "replayed_regressions": replayed,
        "shards": nshards,
        "shard_wall_s": [round(r["wall_s"], 1) for r in results],
        "exhaustive": False,
        "exhaustive_parts": exhaustive_parts,
        "known_findings_reproduced": sorted({e["key"] for e, _ in known_hits}),
        "failure_signatures": {s: f["count"] for s, f in failures.items()},
    }
    ev = {
        "property_id": prop,
        "tier": tier,
        "seed": seed,
        "level": level,
        "coverage": coverage,
        "assumptions": getattr(module, "ASSUMPTIONS", []),
        "wall_s": round(wall, 2),
        "violations": len(violations),
    }
    (VERIF / "evidence").mkdir(exist_ok=True)
    if harness_errors:
        ev["coverage"]["harness_errors"] = harness_errors
    (VERIF / "evidence" / f"{prop}.json").write_text(json.dumps(ev, indent=1, default=_json_default) + "\n")
    print(f"{prop} {tier}: evaluations={evaluations} distinct_nontrivial={len(nontrivial)} "
          f"violations={len(violations)} known={len(known_hits)} wall={wall:.1f}s")
    if violations:
        return 1
    if harness_errors:
        for h in harness_errors:
            print("HARNESS-ERROR", h)
        return 2
    return 0
