"""Calibration glue: JSON calibration spec -> pyxel Calibration object / pygmo problem; analytic probe helpers."""

from __future__ import annotations

import copy

import numpy as np


def build_calibration(spec: dict):
    from pyxel.calibration import Algorithm, Calibration
    from pyxel.exposure import Readout
    from pyxel.observation import ParameterValues
    from pyxel.pipelines import FitnessFunction

    m = copy.deepcopy(spec["mode"])
    m.pop("kind", None)
    ff = m.pop("fitness_function")
    kw = {
        "target_data_path": m.pop("target_data_path"),
        "fitness_function": FitnessFunction(func=ff["func"], arguments=ff.get("arguments")),
        "algorithm": Algorithm(**m.pop("algorithm")),
        "parameters": [ParameterValues(**_param_kwargs(p)) for p in m.pop("parameters")],
    }
    if "result_input_arguments" in m:
        kw["result_input_arguments"] = [ParameterValues(**p) for p in m.pop("result_input_arguments")]
    from vlib.pyx import _readout_kwargs

    rk = _readout_kwargs(spec)
    if rk:
        kw["readout"] = Readout(**rk)
    for k in ("result_fit_range", "target_fit_range"):
        if m.get(k) is not None:
            kw[k] = tuple(m.pop(k))
        else:
            m.pop(k, None)
    if spec.get("pipeline_seed") is not None:
        kw["pipeline_seed"] = spec["pipeline_seed"]
    kw.update(m)
    return Calibration(**kw)


def _param_kwargs(p: dict) -> dict:
    """JSON description of a calibrated variable -> ParameterValues arguments ('values_as_tuple': the placeholders are given as a tuple)."""
    p = dict(p)
    if p.pop("values_as_tuple", False) and isinstance(p.get("values"), list):
        p["values"] = tuple(p["values"])
    return p


def make_problem(cal, detector, pipeline, with_inherited_coords=True):
    """The pygmo problem exactly as Calibration.run_calibration builds it (same arguments, same order)."""
    from pyxel.calibration import FitRange3D, to_fit_range
    from pyxel.calibration.fitting_datatree import ModelFittingDataTree
    from pyxel.pipelines import Processor

    return ModelFittingDataTree(
        processor=Processor(detector=detector, pipeline=pipeline),
        variables=cal.parameters,
        readout=cal.readout,
        simulation_output=cal.result_type,
        generations=cal.algorithm.generations,
        population_size=cal.algorithm.population_size,
        fitness_func=cal.fitness_function,
        file_path=None,
        target_filenames=cal.target_data_path,
        target_fit_range=to_fit_range(cal.target_fit_range),
        out_fit_range=FitRange3D.from_sequence(cal.result_fit_range),
        input_arguments=cal.result_input_arguments,
        weights=cal.weights,
        weights_from_file=cal.weights_from_file,
        pipeline_seed=cal.pipeline_seed,
        with_inherited_coords=with_inherited_coords,
    )


# ------------------------------------------------------------------ reference model of the parameter mapping (C10)
def reference_bounds(variables):
    lo, hi = [], []
    for v in variables:
        n = v["n"]
        b = v["boundaries"]
        pairs = [b] * n if not isinstance(b[0], (list, tuple)) else [list(x) for x in b]
        for a, c in pairs:
            lo.append(np.log10(a) if v["log"] else float(a))
            hi.append(np.log10(c) if v["log"] else float(c))
    return lo, hi


def reference_convert(variables, dv):
    dv = np.array(dv, dtype=float)
    out = dv.copy()
    i = 0
    for v in variables:
        n = v["n"]
        if v["log"]:
            out[..., i:i + n] = 10.0 ** dv[..., i:i + n]
        i += n
    return out


def reference_split(variables, params):
    """{argument name: value received} expected for a parameter vector."""
    i, out = 0, {}
    for v in variables:
        n = v["n"]
        out[v["arg"]] = float(params[i]) if v["scalar"] else [float(x) for x in params[i:i + n]]
        i += n
    return out
