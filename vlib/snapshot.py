"""Deep structural snapshots of the objects a caller hands to pyxel (detector, pipeline, readout, mode)."""

from __future__ import annotations

import copy

import numpy as np


def _arr(a):
    if a is None:
        return None
    a = np.asarray(a)
    return ("ndarray", str(a.dtype), a.shape, a.tobytes() if a.dtype != object else repr(a.tolist()))


def _tree(dt):
    out = {}
    if dt is None:
        return None
    for node in dt.subtree:
        ds = node.to_dataset(inherit=False)
        for name, da in ds.variables.items():
            out[f"{node.path}:{name}"] = (tuple(da.dims), _arr(da.values))
    return out


def snap_detector(det) -> dict:
    out = {"type": type(det).__name__}
    for sec in ("geometry", "environment", "characteristics"):
        out[sec] = {k: (v if not isinstance(v, np.ndarray) else _arr(v)) for k, v in vars(getattr(det, sec)).items() if k != "_numbytes"}
        for k, v in out[sec].items():
            if not isinstance(v, (int, float, str, bool, type(None), tuple, list)):
                out[sec][k] = repr(v)
    ph = det._photon._array if det._photon is not None else None
    out["photon"] = None if ph is None else (_arr(ph) if isinstance(ph, np.ndarray) else ("3d", _arr(ph.values), [float(w) for w in ph["wavelength"].values]))
    for b in ("_pixel", "_signal", "_image", "_phase"):
        obj = getattr(det, b, None)
        out[b] = None if obj is None else _arr(obj._array)
    ch = det._charge
    out["charge_array"] = _arr(ch._array)
    out["charge_frame"] = {c: _arr(ch._frame[c].values.astype(float)) for c in ch._frame.columns}
    out["scene"] = _tree(det._scene.data) if det._scene is not None else None
    out["data"] = _tree(det._data)
    out["memory"] = {k: (_arr(v) if isinstance(v, np.ndarray) else copy.deepcopy(v)) for k, v in det._memory.items()}
    p = det._persistence
    out["persistence"] = None if p is None else {"trapped": _arr(p.trapped_charge_array), "tau": _arr(p.trap_time_constants)}
    out["intermediate"] = None if det._intermediate is None else sorted(det._intermediate.children)
    rp = det._readout_properties
    out["readout_properties"] = None if rp is None else {"times": _arr(rp.times), "start": rp.start_time, "nd": rp.non_destructive}
    return out


def snap_pipeline(pipe) -> dict:
    from vlib.gen_pipeline import GROUP_ORDER

    out = {}
    for g in GROUP_ORDER:
        grp = getattr(pipe, g)
        if grp is None:
            out[g] = None
            continue
        out[g] = [{"name": m.name, "func": m._func_name, "enabled": m.enabled,
                   "arguments": copy.deepcopy({k: (_arr(v) if isinstance(v, np.ndarray) else v) for k, v in m.arguments._arguments.items()})}
                  for m in grp.models]
    return out


def snap_readout(ro) -> dict:
    return {"times": _arr(ro.times), "steps": _arr(ro.steps), "start": ro.start_time, "nd": ro.non_destructive}


def snap_mode(mode) -> dict:
    out = {"class": type(mode).__name__, "readout": snap_readout(mode.readout), "pipeline_seed": getattr(mode, "pipeline_seed", None)}
    pm = getattr(mode, "parameter_mode", None)
    params = getattr(pm, "parameters", None) if pm is not None else getattr(mode, "parameters", None)
    if params is not None:
        out["parameters"] = [{"key": p.key, "values": copy.deepcopy(p.values) if not isinstance(p.values, np.ndarray) else _arr(p.values),
                              "enabled": p.enabled, "boundaries": _arr(p.boundaries), "log": p.logarithmic} for p in params]
    if pm is not None and hasattr(pm, "custom_data"):
        out["custom_data"] = _arr(pm.custom_data.to_numpy())
    return out


def snap_all(cfg) -> dict:
    return {"detector": snap_detector(cfg.detector), "pipeline": snap_pipeline(cfg.pipeline), "mode": snap_mode(cfg.mode)}


def diff(a, b, path="") -> list[str]:
    """Paths where two snapshots differ."""
    if type(a) is not type(b):
        return [f"{path}: {type(a).__name__} -> {type(b).__name__}"]
    if isinstance(a, dict):
        out = []
        for k in sorted(set(a) | set(b), key=str):
            if k not in a or k not in b:
                out.append(f"{path}/{k}: present only {'before' if k in a else 'after'}")
            else:
                out.extend(diff(a[k], b[k], f"{path}/{k}"))
        return out
    if isinstance(a, (list, tuple)):
        if len(a) != len(b):
            return [f"{path}: length {len(a)} -> {len(b)}"]
        out = []
        for i, (x, y) in enumerate(zip(a, b)):
            out.extend(diff(x, y, f"{path}[{i}]"))
        return out
    if isinstance(a, float) and isinstance(b, float) and a != a and b != b:
        return []
    return [] if a == b else [f"{path}: {str(a)[:60]} -> {str(b)[:60]}"]
