"""Readout schedules: strategies producing valid schedules by construction, renderings, and invalid mutations.

A schedule spec is {"start": float, "times": [float, ...], "render": <rendering>}; the reference
values are the floats in the spec (for numpy-expression renderings the spec stores the expression and the
harness evaluates the numbers it denotes with numpy itself).
"""

from __future__ import annotations

import numpy as np
from hypothesis import strategies as st

RENDERINGS = ("list", "int_list", "scalar", "tuple_expr", "list_expr", "range_expr", "numpy_array", "numpy_linspace",
              "numpy_arange", "file_npy", "file_txt", "file_csv", "file_csv_row", "file_npy_row", "file_npy_col")

# strictly positive increments; quarter-integers are exact in binary and in short decimal text
_inc_exact = st.integers(1, 40).map(lambda k: k * 0.25)
_inc_any = st.one_of(_inc_exact, st.floats(1e-3, 50.0, allow_nan=False, allow_infinity=False))


@st.composite
def schedules(draw, max_n=12, renderings=RENDERINGS, exact=False):
    render = draw(st.sampled_from(list(renderings)))
    start = draw(st.sampled_from([0.0, 0.0, 0.0, 0.5, 2.0, 10.25, -1.0, -3.5, 100.0]))
    if render == "scalar":
        n = 1
    else:
        n = draw(st.integers(1, max_n))
    if render in ("int_list", "range_expr", "numpy_arange", "numpy_linspace"):
        start = float(draw(st.sampled_from([0, 0, 1, 5, -2, -10])))
    if render in ("range_expr", "numpy_arange"):
        first = int(start) + draw(st.integers(1, 5))
        step = draw(st.integers(1, 4))
        times = [float(first + k * step) for k in range(n)]
        if any(t == 0.0 for t in times):  # the sequence would cross zero: start it at 1 instead
            first = 1
            times = [float(first + k * step) for k in range(n)]
        spec = {"start": start, "times": times, "render": render, "first": first, "step": step, "n": n}
        return spec
    if render == "numpy_linspace":
        first = float(int(start) + draw(st.integers(1, 5)))
        last = first + draw(st.integers(1, 20)) if n > 1 else first
        times = [float(v) for v in np.linspace(first, last, n)]
        if any(t == 0.0 for t in times) or (n > 1 and not all(b > a for a, b in zip(times, times[1:]))):
            first, last = abs(first) + 1.0, abs(first) + 1.0 + n
            times = [float(v) for v in np.linspace(first, last, n)]
        return {"start": start, "times": times, "render": render, "first": first, "last": float(last), "n": n}
    inc = _inc_exact if (exact or render in ("int_list", "file_txt", "file_csv", "file_csv_row")) else _inc_any
    incs = draw(st.lists(inc, min_size=n, max_size=n))
    if render == "int_list":
        incs = [float(max(1, round(i))) for i in incs]
    times, t = [], start
    for d in incs:
        t2 = t + d
        if t2 == 0.0 or t2 <= t:  # never generate a zero time (see DESIGN C02), keep strictly increasing
            t2 = t + d + 1.0
        times.append(t2)
        t = t2
    return {"start": start, "times": times, "render": render}


def render_readout_kwargs(s: dict, tmpdir) -> dict:
    """kwargs for Readout(...) / the YAML 'readout:' mapping (without non_destructive)."""
    from pathlib import Path

    r, times, kw = s["render"], s["times"], {"start_time": s["start"]}
    if r == "list":
        kw["times"] = list(times)
    elif r == "int_list":
        kw["times"] = [int(t) for t in times]
        kw["start_time"] = int(s["start"]) if float(s["start"]).is_integer() else s["start"]
    elif r == "scalar":
        kw["times"] = times[0]
    elif r == "tuple_expr":
        kw["times"] = "(" + ", ".join(repr(t) for t in times) + ",)"
    elif r == "list_expr":
        kw["times"] = "[" + ", ".join(repr(t) for t in times) + "]"
    elif r == "range_expr":
        kw["times"] = f"range({s['first']}, {s['first'] + s['step'] * s['n']}, {s['step']})"
    elif r == "numpy_arange":
        kw["times"] = f"numpy.arange({s['first']}, {s['first'] + s['step'] * s['n']}, {s['step']})"
    elif r == "numpy_linspace":
        kw["times"] = f"numpy.linspace({s['first']!r}, {s['last']!r}, {s['n']})"
    elif r == "numpy_array":
        kw["times"] = "numpy.array([" + ", ".join(repr(t) for t in times) + "])"
    elif r == "file_npy":
        p = Path(tmpdir) / "times.npy"
        np.save(p, np.array(times, dtype=float))
        kw["times_from_file"] = str(p)
    elif r == "file_txt":
        p = Path(tmpdir) / "times.txt"
        p.write_text("".join(f"{t!r}\n" for t in times))
        kw["times_from_file"] = str(p)
    elif r == "file_csv":
        p = Path(tmpdir) / "times.csv"
        p.write_text("".join(f"{t!r}\n" for t in times))
        kw["times_from_file"] = str(p)
    elif r == "file_csv_row":  # all times on one comma-separated line
        p = Path(tmpdir) / "times_row.csv"
        p.write_text(",".join(f"{t!r}" for t in times) + "\n")
        kw["times_from_file"] = str(p)
    elif r in ("file_npy_row", "file_npy_col"):  # a 2-D array holding one row / one column
        p = Path(tmpdir) / f"times_{r[-3:]}.npy"
        np.save(p, np.array(times, dtype=float).reshape((1, -1) if r.endswith("row") else (-1, 1)))
        kw["times_from_file"] = str(p)
    else:
        raise ValueError(r)
    return kw


INVALID_KINDS = ("dup", "swap", "decreasing_tail", "first_zero", "start_eq_first", "start_gt_first", "empty", "both")


def mutate_invalid(s: dict, kind: str) -> dict:
    """Return {"start", "times", "both": bool} for an invalid variant of a valid schedule (plain list rendering)."""
    times, start = list(s["times"]), s["start"]
    both = False
    if kind == "dup":
        if len(times) < 2:
            times = times + [times[-1]]
        else:
            times[1] = times[0]
    elif kind == "swap":
        if len(times) < 2:
            times = [times[0] + 1.0, times[0]]
        else:
            times[0], times[1] = times[1], times[0]
    elif kind == "decreasing_tail":
        times = times + [times[-1] - 0.125]
    elif kind == "first_zero":
        shift = times[0]
        times = [t - shift for t in times]
        start = -1.0
    elif kind == "start_eq_first":
        start = times[0]
    elif kind == "start_gt_first":
        start = times[0] + 0.5
    elif kind == "empty":
        times = []
    elif kind == "both":
        both = True
    return {"start": start, "times": times, "both": both}
