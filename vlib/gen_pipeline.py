"""Pipeline specs (plain JSON) -> DetectionPipeline objects or YAML text; Hypothesis strategies.

spec = {"groups": {group: None | [model, ...]}, "yaml_perm": int}
model = {"name": str (unique), "func": dotted name, "enabled": True | False | None (omitted),
         "arguments": {...} | None (omitted)}
"""

from __future__ import annotations

import json as _json
import random as _random  # only used with an explicit seed taken from the case (deterministic)

from hypothesis import strategies as st

# Literal copy of the order in the property statement (C01) - NOT imported from pyxel.
GROUP_ORDER = (
    "scene_generation",
    "photon_collection",
    "phasing",
    "charge_generation",
    "charge_collection",
    "charge_transfer",
    "charge_measurement",
    "signal_transfer",
    "readout_electronics",
    "data_processing",
)

_key = st.text(alphabet="abcdefghijklmnopqrstuvwxyz_", min_size=1, max_size=6).filter(
    lambda s: s not in ("tag", "self", "detector") and not s.startswith("_")
)
_scalar = st.one_of(
    st.integers(-1000, 1000),
    st.floats(-1e6, 1e6, allow_nan=False, allow_infinity=False),
    st.booleans(),
    st.text(alphabet="abcXYZ 019_-./", max_size=8),
    st.sampled_from(["yes", "no", "null", "1", "1e3", "~", "true", ""]),
)
arg_value = st.recursive(
    _scalar,
    lambda ch: st.one_of(st.lists(ch, max_size=3), st.dictionaries(_key, ch, max_size=2)),
    max_leaves=5,
)


@st.composite
def pipeline_specs(draw, func="vprobes.models.trace", max_models=3, min_groups=0, groups=GROUP_ORDER, with_args=True):
    chosen = draw(st.lists(st.sampled_from(list(groups)), unique=True, min_size=min_groups, max_size=len(groups)))
    spec = {}
    n = 0
    for g in chosen:
        kind = draw(st.sampled_from(["models", "models", "models", "models", "none", "empty"]))
        if kind == "none":
            spec[g] = None
            continue
        if kind == "empty":
            spec[g] = []
            continue
        models = []
        for _ in range(draw(st.integers(1, max_models))):
            name = f"m{n}"
            n += 1
            args = draw(st.dictionaries(_key, arg_value, max_size=3)) if with_args else {}
            args["tag"] = name
            models.append({
                "name": name,
                "func": func,
                "enabled": draw(st.sampled_from([True, True, True, False, None])),
                "arguments": args,
            })
        spec[g] = models
    return {"groups": spec, "yaml_perm": draw(st.integers(0, 10**6))}


def build_pipeline(spec: dict):
    from pyxel.pipelines import DetectionPipeline, ModelFunction

    kw = {}
    for g, models in spec["groups"].items():
        if models is None:
            kw[g] = None
        else:
            lst = []
            for m in models:
                mk = {"func": m["func"], "name": m["name"]}
                if m.get("enabled") is not None:
                    mk["enabled"] = m["enabled"]
                if m.get("arguments") is not None:
                    import copy

                    mk["arguments"] = copy.deepcopy(m["arguments"])
                lst.append(ModelFunction(**mk))
            kw[g] = lst
    return DetectionPipeline(**kw)


def _shuffled(d: dict, rnd) -> dict:
    keys = list(d)
    rnd.shuffle(keys)
    return {k: d[k] for k in keys}


def pipeline_yaml_dict(spec: dict) -> dict:
    """The ``pipeline:`` mapping with group keys and model keys in a case-determined permutation."""
    rnd = _random.Random(spec.get("yaml_perm", 0))
    out = {}
    seen_entries = {}
    for g, models in spec["groups"].items():
        if models is None:
            out[g] = None
            continue
        lst = []
        for m in models:
            key = _json.dumps(m, sort_keys=True, default=str)
            if spec.get("yaml_aliases") and key in seen_entries:
                lst.append(seen_entries[key])  # the same object again: PyYAML writes it as an anchor (&id001) and an alias (*id001)
                continue
            md = {"name": m["name"], "func": m["func"]}
            if m.get("enabled") is not None:
                md["enabled"] = m["enabled"]
            if m.get("arguments") is not None:
                md["arguments"] = _shuffled(m["arguments"], rnd)
            md = _shuffled(md, rnd)
            seen_entries[key] = md
            lst.append(md)
        out[g] = lst
    return _shuffled(out, rnd)


def reference_calls(spec: dict, steps: int) -> list:
    """Expected call list for one run: step-major, canonical group order, listed order, enabled only."""
    calls = []
    for step in range(steps):
        for g in GROUP_ORDER:
            for m in spec["groups"].get(g) or []:
                if m.get("enabled") is False:
                    continue
                calls.append({"tag": m["name"], "kw": m.get("arguments") or {}, "step": step, "group": g})
    return calls
