"""Detector specs (plain JSON) -> pyxel detectors, and Hypothesis strategies for the specs.

Every optional field is drawn inside its documented range or left unset.
"""

from __future__ import annotations

from hypothesis import strategies as st

TYPES = ("CCD", "CMOS", "MKID", "APD")


def _opt(s):
    return st.one_of(st.none(), s)


def _flt(lo, hi, extra=()):
    return st.one_of(
        st.sampled_from([float(lo), float(hi), *map(float, extra)]),
        st.floats(min_value=lo, max_value=hi, allow_nan=False, allow_infinity=False, width=64),
    )


@st.composite
def detector_specs(draw, types=TYPES, max_rows=8, max_cols=8, min_rows=1, min_cols=1, full=True, pixel_sizes=None):
    typ = draw(st.sampled_from(list(types)))
    geo = {
        "row": draw(st.integers(min_rows, max_rows)),
        "col": draw(st.integers(min_cols, max_cols)),
    }
    if full:
        geo["total_thickness"] = draw(_opt(_flt(0.0, 10000.0, (10.0,))))
        if pixel_sizes is None:
            geo["pixel_vert_size"] = draw(_opt(_flt(0.0, 1000.0, (10.0, 0.1))))
            geo["pixel_horz_size"] = draw(_opt(_flt(0.0, 1000.0, (10.0, 0.1))))
        geo["pixel_scale"] = draw(_opt(_flt(0.0, 1000.0, (1.5,))))
    if pixel_sizes is not None:
        geo["pixel_vert_size"] = draw(pixel_sizes)
        geo["pixel_horz_size"] = draw(pixel_sizes)
    env = {}
    if full:
        env["temperature"] = draw(_opt(_flt(1e-3, 1000.0, (300.0,))))
        env["wavelength"] = draw(_opt(_flt(1e-3, 5000.0, (600.0,))))
    vrange = draw(_opt(st.sampled_from([[0.0, 10.0], [0.0, 1.0], [-5.0, 5.0], [0.1, 3.3]]))) if full else None
    if typ == "APD":
        ch = {
            "roic_gain": draw(_flt(0.1, 10.0, (0.8,))),
            "quantum_efficiency": draw(_opt(_flt(0.0, 1.0, (0.5,)))) if full else None,
            "full_well_capacity": draw(_opt(_flt(0.0, 1.0e7, (1e5,)))) if full else None,
            "adc_bit_resolution": draw(_opt(st.integers(4, 64))) if full else None,
            "adc_voltage_range": vrange,
        }
        combo = draw(st.sampled_from(["gain_reset", "gain_common", "reset_common"]))
        # gain 1..1000 (documented); voltages chosen so the derived bias stays in the
        # range the SAPHIRA bias<->gain relation is defined for.
        if combo == "gain_reset":
            ch["avalanche_gain"] = draw(_flt(1.0, 100.0, (2.0,)))
            ch["pixel_reset_voltage"] = draw(_flt(1.0, 12.0, (5.0,)))
        elif combo == "gain_common":
            ch["avalanche_gain"] = draw(_flt(1.0, 100.0, (2.0,)))
            ch["common_voltage"] = draw(_flt(-3.0, 3.0, (0.0,)))
        else:
            ch["common_voltage"] = draw(_flt(-3.0, 1.0, (0.0,)))
            ch["pixel_reset_voltage"] = ch["common_voltage"] + draw(_flt(2.0, 12.0, (5.0,)))
    else:
        ch = {}
        if full:
            ch = {
                "quantum_efficiency": draw(_opt(_flt(0.0, 1.0, (0.5,)))),
                "charge_to_volt_conversion": draw(_opt(_flt(0.0, 100.0, (1e-6,)))),
                "pre_amplification": draw(_opt(_flt(0.0, 10000.0, (100.0,)))),
                "full_well_capacity": draw(_opt(_flt(0.0, 1.0e7, (1e5,)))),
                "adc_bit_resolution": draw(_opt(st.integers(4, 64))),
                "adc_voltage_range": vrange,
            }
    ch = {k: v for k, v in ch.items() if v is not None}
    geo = {k: v for k, v in geo.items() if v is not None}
    env = {k: v for k, v in env.items() if v is not None}
    return {"type": typ, "geometry": geo, "environment": env, "characteristics": ch}


def simple_spec(typ="CCD", row=3, col=4, **ch):
    base = {"quantum_efficiency": 0.5, "charge_to_volt_conversion": 1e-6, "pre_amplification": 10.0,
            "full_well_capacity": 1e5, "adc_bit_resolution": 16, "adc_voltage_range": [0.0, 10.0]}
    if typ == "APD":
        base = {"roic_gain": 0.8, "quantum_efficiency": 0.5, "full_well_capacity": 1e5, "adc_bit_resolution": 16,
                "adc_voltage_range": [0.0, 10.0], "avalanche_gain": 2.0, "pixel_reset_voltage": 5.0}
    base.update(ch)
    return {"type": typ,
            "geometry": {"row": row, "col": col, "total_thickness": 10.0, "pixel_vert_size": 10.0,
                         "pixel_horz_size": 10.0},
            "environment": {"temperature": 100.0},
            "characteristics": base}


def build_detector(spec: dict):
    from pyxel import detectors as D

    typ = spec["type"]
    geo_cls = {"CCD": D.CCDGeometry, "CMOS": D.CMOSGeometry, "MKID": D.MKIDGeometry, "APD": D.APDGeometry}[typ]
    det_cls = {"CCD": D.CCD, "CMOS": D.CMOS, "MKID": D.MKID, "APD": D.APD}[typ]
    ch_cls = D.APDCharacteristics if typ == "APD" else D.Characteristics
    ch = dict(spec.get("characteristics", {}))
    if ch.get("adc_voltage_range") is not None:
        ch["adc_voltage_range"] = tuple(ch["adc_voltage_range"])
    return det_cls(
        geometry=geo_cls(**spec["geometry"]),
        environment=D.Environment(**spec.get("environment", {})),
        characteristics=ch_cls(**ch),
    )


def detector_yaml_dict(spec: dict) -> dict:
    """The `<type>_detector:` mapping of a YAML configuration for this spec."""
    key = {"CCD": "ccd_detector", "CMOS": "cmos_detector", "MKID": "mkid_detector", "APD": "apd_detector"}[spec["type"]]
    return {key: {"geometry": dict(spec["geometry"]), "environment": dict(spec.get("environment", {})),
                  "characteristics": dict(spec.get("characteristics", {}))}}
