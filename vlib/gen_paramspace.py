"""Parameter spaces for observation mode: strategies, reference enumerators, label-aware result selection.

The echo pipeline has two `vprobes.models.echo` models (e1 in charge_collection, e2 in charge_measurement);
parameters sweep their arguments and two detector fields. Reference spaces are itertools one-liners.
"""

from __future__ import annotations

import itertools

import numpy as np
from hypothesis import strategies as st

DEFAULTS = {
    "pipeline.charge_collection.e1.arguments.level": 1,
    "pipeline.charge_collection.e1.arguments.vec": [0.5, 0.25],
    "pipeline.charge_collection.e1.arguments.other": 0.125,
    "pipeline.charge_measurement.e2.arguments.level": 2,
    "detector.characteristics.quantum_efficiency": 0.5,
    "detector.environment.temperature": 100.0,
}
KEYS = list(DEFAULTS)
VECTOR_KEYS = {"pipeline.charge_collection.e1.arguments.vec"}
# a text-valued argument (like the file names and option strings swept in real configurations); opt-in: spaces(with_names=True)
NAME_KEY = "pipeline.charge_collection.e1.arguments.name"
NAME_DEFAULT = "x"
NAMES = ["b", "a", "zz", "img_01.fits", "Uniform"]
# an entry inside a mapping-valued argument (opt-in: spaces(with_nested=True))
NESTED_KEY = "pipeline.charge_collection.e1.arguments.opts.k"
NESTED_DEFAULT = 0.0


def echo_pipeline(extra_groups=None):
    groups = {
        "charge_collection": [{"name": "e1", "func": "vprobes.models.echo", "enabled": True,
                               "arguments": {"level": DEFAULTS[KEYS[0]], "vec": list(DEFAULTS[KEYS[1]]), "other": DEFAULTS[KEYS[2]], "tag": "e1", "name": NAME_DEFAULT, "opts": {"k": NESTED_DEFAULT, "z": 1}}}],
        "charge_measurement": [{"name": "e2", "func": "vprobes.models.echo", "enabled": True,
                                "arguments": {"level": DEFAULTS[KEYS[3]], "vec": [1.0, 1.0], "other": 0.0, "tag": "e2"}}],
    }
    for g, models in (extra_groups or {}).items():
        groups.setdefault(g, [])
        groups[g] = list(groups[g]) + list(models)
    return {"groups": groups, "yaml_perm": 4}


def _values_for(key):
    if key == NESTED_KEY:
        return st.lists(st.sampled_from([1.0, 2.0, 3.0, 4.0]), min_size=1, max_size=3, unique=True)
    if key == NAME_KEY:
        return st.lists(st.sampled_from(NAMES), min_size=1, max_size=3, unique=True)
    if key in VECTOR_KEYS:
        return st.lists(st.tuples(st.integers(0, 9), st.integers(0, 9)).map(list), min_size=1, max_size=3, unique_by=tuple)
    if key.endswith("quantum_efficiency"):
        return st.lists(st.sampled_from([0.0, 0.125, 0.25, 0.75, 1.0]), min_size=1, max_size=3, unique=True)
    if key.endswith("temperature"):
        return st.lists(st.sampled_from([50.0, 150.0, 200.0, 250.0, 300.0]), min_size=1, max_size=3, unique=True)
    if key.endswith("other"):
        return st.lists(st.sampled_from([0.0, 1.5, 2.25, 7.75]), min_size=1, max_size=3, unique=True)
    return st.lists(st.one_of(st.integers(0, 40), st.sampled_from([0, 1])), min_size=1, max_size=4, unique=True)  # 0: falsy but valid


@st.composite
def spaces(draw, modes=("product", "sequential", "custom"), max_params=4, allow_k1=False, max_runs=24, with_names=False, with_nested=False):
    mode = draw(st.sampled_from(list(modes)))
    dask = draw(st.booleans())
    if mode == "custom" and with_names and draw(st.sampled_from([False, False, True])):
        # a custom table of text cells only: one text-valued parameter (optionally next to a disabled numeric one), one row per run
        names = draw(st.lists(st.sampled_from(NAMES), min_size=1, max_size=4, unique=True))
        params = [{"key": NAME_KEY, "values": list(names), "enabled": True, "render": "list"}]
        if draw(st.booleans()):
            params.insert(draw(st.integers(0, 1)), {"key": KEYS[0], "values": [3, 4], "enabled": False, "render": "list"})
        return {"mode": mode, "dask": dask, "params": params,
                "custom": {"rows": [[n] for n in names], "pre": 0, "post": 0, "use_range": False, "fmt": draw(st.sampled_from(["txt", "csv"])), "text": True}}
    pool = KEYS + [NAME_KEY] if with_names and mode != "custom" else list(KEYS)  # (the general custom tables hold numbers)
    if with_nested:
        pool = pool + [NESTED_KEY]
    keys = draw(st.lists(st.sampled_from(pool), min_size=1, max_size=max_params, unique=True))
    params = []
    for k in keys:
        vals = draw(_values_for(k))
        render = "list"
        if k not in VECTOR_KEYS and k != NAME_KEY and all(isinstance(v, int) for v in vals) and draw(st.booleans()):
            render = "numpy"
        params.append({"key": k, "values": vals, "enabled": draw(st.sampled_from([True, True, True, False])), "render": render})
    if not any(p["enabled"] for p in params):
        params[0]["enabled"] = True
    # keep the product small
    while mode == "product" and np.prod([len(p["values"]) for p in params if p["enabled"]]) > max_runs:
        big = max((p for p in params if p["enabled"]), key=lambda p: len(p["values"]))
        big["values"] = big["values"][:-1]
    if mode == "sequential" and dask and not allow_k1 and sum(p["enabled"] for p in params) >= 2:
        dask = False  # known finding K1 (zip semantics): this class is excluded here and probed separately
    case = {"mode": mode, "dask": dask, "params": params}
    if mode == "custom":
        nrows = draw(st.integers(1, 4))
        width = sum((2 if p["key"] in VECTOR_KEYS else 1) for p in params if p["enabled"])
        rows = []
        for r in range(nrows):
            row = []
            for p in params:
                if not p["enabled"]:
                    continue
                v = draw(_values_for(p["key"]))[0]
                row.extend(v if isinstance(v, list) else [v])
            rows.append([float(x) for x in row])
        # rows must be distinct runs (labels must be selectable)
        rows = [list(t) for t in dict.fromkeys(tuple(r) for r in rows)]
        case["custom"] = {"rows": rows, "pre": draw(st.integers(0, 2)), "post": draw(st.integers(0, 2)),
                          "use_range": draw(st.booleans()), "fmt": draw(st.sampled_from(["txt", "npy", "csv"]))}
        if not case["custom"]["use_range"]:
            case["custom"]["pre"] = case["custom"]["post"] = 0
        assert all(len(r) == width for r in rows)
    return case


def render_values(p):
    if p.get("expr"):  # a numpy expression given literally (its value list is p["values"])
        return p["expr"]
    vals = p["values"]
    if p.get("render") == "numpy":
        return "numpy.array(" + repr(list(vals)) + ")"
    return [list(v) if isinstance(v, (list, tuple)) else v for v in vals]


def observation_mode_spec(case, tmpdir):
    """The 'mode' part of a pyx run spec for this parameter space (writes the custom table if needed)."""
    params = []
    for p in case["params"]:
        d = {"key": p["key"], "enabled": p["enabled"]}
        if case["mode"] == "custom":
            d["values"] = ["_", "_"] if p["key"] in VECTOR_KEYS else "_"
        else:
            d["values"] = render_values(p)
        params.append(d)
    m = {"kind": "observation", "mode": case["mode"], "with_dask": case["dask"], "parameters": params}
    if case["mode"] == "custom":
        c = case["custom"]
        path = f"{tmpdir}/custom.{c['fmt']}"
        if c.get("text"):
            with open(path, "w") as fh:
                fh.writelines(("," if c["fmt"] == "csv" else " ").join(str(x) for x in r) + "\n" for r in c["rows"])
            m["from_file"] = path
            return m
        table = np.array([[91.0 + i] * c["pre"] + r + [77.0] * c["post"] for i, r in enumerate(c["rows"])], dtype=float)
        if c["fmt"] == "npy":
            np.save(path, table)
        else:
            np.savetxt(path, table, delimiter="," if c["fmt"] == "csv" else " ", fmt="%.17g")
        m["from_file"] = path
        if c["use_range"]:
            m["column_range"] = [c["pre"], c["pre"] + len(c["rows"][0])]
    return m


def reference_runs(case) -> list[dict]:
    """List of {key: value} (only the swept keys) in the documented order of the mode."""
    en = [p for p in case["params"] if p["enabled"]]
    if case["mode"] == "product":
        return [dict(zip([p["key"] for p in en], combo)) for combo in itertools.product(*[p["values"] for p in en])]
    if case["mode"] == "sequential":
        return [{p["key"]: v} for p in en for v in p["values"]]
    out = []
    for row in case["custom"]["rows"]:
        i, d = 0, {}
        for p in en:
            if p["key"] in VECTOR_KEYS:
                d[p["key"]] = list(row[i:i + 2])
                i += 2
            else:
                d[p["key"]] = row[i]
                i += 1
        out.append(d)
    return out


def full_state(run: dict) -> dict:
    s = {k: (list(v) if isinstance(v, list) else v) for k, v in DEFAULTS.items()}
    s[NAME_KEY] = NAME_DEFAULT
    s[NESTED_KEY] = NESTED_DEFAULT
    s.update({k: (list(v) if isinstance(v, (list, tuple)) else v) for k, v in run.items()})
    return s


def state_tuple(s: dict) -> tuple:
    return tuple((k, tuple(float(x) for x in s[k]) if isinstance(s[k], (list, tuple)) else float(s[k])) for k in KEYS) + ((NAME_KEY, str(s.get(NAME_KEY, NAME_DEFAULT))), (NESTED_KEY, float(s.get(NESTED_KEY, NESTED_DEFAULT))))


def expected_pixel(s: dict) -> float:
    from vprobes.models import encode, name_code, nested_code

    qe, t = s[KEYS[4]], s[KEYS[5]]
    return encode(s[KEYS[0]], s[KEYS[1]], s[KEYS[2]], qe, t) + name_code(s.get(NAME_KEY, NAME_DEFAULT)) + nested_code(s.get(NESTED_KEY, NESTED_DEFAULT)) + encode(s[KEYS[3]], [1.0, 1.0], 0.0, qe, t)


def applied_states(echo_log) -> list[tuple]:
    """One state tuple per executed run, reconstructed from what the two echo probes *received*."""
    out = []
    cur = None
    for e in echo_log:
        if e["tag"] == "e1":
            cur = {KEYS[0]: e["level"], KEYS[1]: e["vec"], KEYS[2]: e["other"], KEYS[4]: e["qe"], KEYS[5]: e["temperature"], NAME_KEY: e["name"], NESTED_KEY: e.get("k", 0.0)}
        elif e["tag"] == "e2" and cur is not None:
            cur[KEYS[3]] = e["level"]
            out.append(state_tuple(cur))
            cur = None
    return out


def dim_names(case) -> dict:
    en = [p["key"] for p in case["params"] if p["enabled"]]
    shorts = [k.split(".")[-1] for k in en]
    names = {}
    for k, s in zip(en, shorts):
        if shorts.count(s) > 1 and k.startswith("pipeline."):
            parts = k.split(".")
            names[k] = f"{parts[2]}.{parts[4]}"
        else:
            names[k] = s
    return names


def select_run(da, case, run: dict, run_index: int):
    """Select the entry of DataArray `da` labelled with this run's parameter values (by coordinate value, never by position)."""
    names = dim_names(case)
    if case["mode"] == "product":
        sel = da
        for k, v in run.items():
            nm = names[k]
            if k in VECTOR_KEYS:
                if nm in sel.dims:  # dask path: tuple-valued coordinate
                    idx = [i for i, c in enumerate(sel[nm].values) if tuple(float(x) for x in c) == tuple(float(x) for x in v)]
                    if len(idx) != 1:
                        raise LookupError(f"label {v} occurs {len(idx)} times on dimension {nm}")
                    sel = sel.isel({nm: idx[0]})
                elif nm in sel.coords:  # sequential path: dimension '<name>_id' with a (<name>_id, dim_k) coordinate
                    coord = sel[nm]
                    rows = np.asarray(coord.transpose(f"{nm}_id", ...).values, dtype=float)
                    idx = [i for i in range(rows.shape[0]) if np.array_equal(rows[i].ravel(), np.asarray(v, dtype=float))]
                    if len(idx) != 1:
                        raise LookupError(f"label {v} occurs {len(idx)} times on dimension {nm}_id")
                    sel = sel.isel({f"{nm}_id": idx[0]})
                else:  # only the index dimension '<name>_id' survives: the label is the value's index in the declared list
                    declared = next(p["values"] for p in case["params"] if p["key"] == k)
                    pos = [list(map(float, d)) for d in declared].index([float(x) for x in v])
                    sel = sel.sel({f"{nm}_id": pos})
            else:
                sel = sel.sel({nm: v})
        return sel
    ids = list(da["id"].values)
    if ids.count(run_index) != 1:
        raise LookupError(f"run index {run_index} occurs {ids.count(run_index)} times")
    sel = da.isel(id=ids.index(run_index))
    # every coordinate that is present must carry this run's value
    for k, v in (run if case["mode"] != "sequential" else run).items():
        nm = names[k]
        if nm in sel.coords and k not in VECTOR_KEYS and np.ndim(sel[nm].values) == 0:
            got = sel[nm].values.item()
            if (str(got) != str(v)) if isinstance(v, str) else (float(got) != float(v)):
                raise LookupError(f"run {run_index}: coordinate {nm} is {got}, the run was made with {v}")
    return sel
