#!/venv/bin/python
"""Single entry point:  run_check.py <Cxx> --tier quick|thorough   |   --replay <file>."""
import argparse
import os
import sys
from pathlib import Path

VERIF = Path(__file__).resolve().parent
REPO = os.environ.get("VERIF_REPO", "/repo")
for p in (str(VERIF), REPO):
    if p in sys.path:
        sys.path.remove(p)
sys.path[:0] = [REPO, str(VERIF)]


def main() -> int:
    ap = argparse.ArgumentParser()
    ap.add_argument("prop")
    ap.add_argument("--tier", default=os.environ.get("VERIF_TIER") or "quick", choices=["quick", "thorough"])
    ap.add_argument("--replay")
    ap.add_argument("--worker", type=int)
    ap.add_argument("--nshards", type=int)
    ap.add_argument("--outdir")
    a = ap.parse_args()
    from vlib import runner

    prop = a.prop.upper()
    seed = int(os.environ.get("VERIF_SEED", "1") or 1)
    if a.worker is not None:
        return runner.worker_main(prop, a.tier, a.worker, a.nshards, a.outdir, seed)
    if a.replay:
        if os.environ.get("PYTHONHASHSEED") != "0":
            os.execve(sys.executable, [sys.executable, *sys.argv], runner.worker_env())
        return runner.run_replay_file(prop, a.replay)
    try:
        return runner.parent_main(prop, a.tier, a.nshards)
    except Exception:  # noqa: BLE001
        import traceback

        traceback.print_exc()
        print(f"HARNESS-ERROR property={prop}")
        return 2


if __name__ == "__main__":
    sys.exit(main())
