import sys; sys.path.insert(0, "/tmp/scratch")
import numpy as np, warnings, itertools, os
warnings.simplefilter("ignore")
import pyxel
from pyxel import load_image, load_table
from pyxel.util import fit_into_array
rng = np.random.default_rng(3)
# loaders
bad = []
for trial in range(300):
    shape = (int(rng.integers(1,7)), int(rng.integers(1,7)))
    arr = rng.normal(0, 1e3, shape) if trial % 3 else rng.integers(-1000, 1000, shape).astype(float)
    for sep, nm in [("\t","tab"),(" ","space"),(",","comma"),("|","bar"),(";","semi")]:
        fn = f"/tmp/scratch/io_{nm}.txt"
        np.savetxt(fn, arr, delimiter=sep, fmt="%.17g")
        try:
            got = load_image(fn)
            if got.shape != arr.shape or not np.array_equal(got, arr): bad.append(("image", nm, shape, got.shape))
        except Exception as e: bad.append(("image", nm, shape, type(e).__name__))
        try:
            got = load_table(fn).to_numpy()
            if got.shape != arr.shape or not np.array_equal(got, arr): bad.append(("table", nm, shape, got.shape))
        except Exception as e: bad.append(("table", nm, shape, type(e).__name__, str(e)[:50]))
from collections import Counter
print(Counter((b[0], b[1], b[3] if isinstance(b[3], str) else ("shape", b[2][1]==1, b[2][0]==1)) for b in bad).most_common(20))
print(bad[:5])
