import numpy as np, warnings
warnings.simplefilter("ignore")
from pyxel import load_table
rng = np.random.default_rng(3)
worst = 0; nbad_int = 0
for trial in range(200):
    shape = (int(rng.integers(1,7)), int(rng.integers(1,7)))
    arr = rng.normal(0, 1e3, shape)
    np.savetxt("/tmp/scratch/io.txt", arr, delimiter=",", fmt="%.17g")
    got = load_table("/tmp/scratch/io.txt").to_numpy()
    worst = max(worst, np.max(np.abs(got-arr)/np.abs(arr)))
    arr = rng.integers(-1000, 1000, shape).astype(float)
    np.savetxt("/tmp/scratch/io.txt", arr, delimiter=",", fmt="%.17g")
    got = load_table("/tmp/scratch/io.txt").to_numpy()
    nbad_int += not np.array_equal(got, arr)
    np.save("/tmp/scratch/io.npy", arr); assert np.array_equal(load_table("/tmp/scratch/io.npy").to_numpy(), arr)
print("worst rel err", worst, "int mismatches", nbad_int)
