import sys; sys.path.insert(0, "/tmp/scratch")
import numpy as np, warnings, io, contextlib, glob, os, shutil
warnings.simplefilter("ignore")
import pyxel, probes, dask
from pyxel.detectors import *
from pyxel.pipelines import DetectionPipeline, ModelFunction
from pyxel.exposure import Readout
from pyxel.observation import Observation, ParameterValues
from pyxel.outputs import ObservationOutputs
def mk(): return CCD(geometry=CCDGeometry(row=2, col=3), environment=Environment(temperature=100.), characteristics=Characteristics(quantum_efficiency=.5, adc_bit_resolution=16))
def pipe(): return DetectionPipeline(charge_collection=[ModelFunction(func="probes.echo", name="e", arguments={"level": 9.0, "vec": [0.5, 0.25], "name": "a"})])
K = "pipeline.charge_collection.e.arguments."
# product with vector param
for wd in (False, True):
    obs = Observation(parameters=[ParameterValues(key=K+"level", values=[1, 2, 3]), ParameterValues(key=K+"vec", values=[[1., 2.], [3., 4.]]), ParameterValues(key="detector.characteristics.quantum_efficiency", values=[0.1, 0.2], enabled=False)], mode="product", with_dask=wd, readout=Readout(times=[1.]))
    with contextlib.redirect_stderr(io.StringIO()):
        dt = pyxel.run_mode(mode=obs, detector=mk(), pipeline=pipe(), with_inherited_coords=True)
    b = dt["/bucket"].to_dataset()
    print("dask" if wd else "seq", dict(b.sizes), list(b.coords))
    px = b["pixel"].compute() if wd else b["pixel"]
    print(px.isel(time=0, y=0, x=0).to_series().head(8))
# custom
np.savetxt("/tmp/scratch/custom.txt", np.array([[1., 10., 20., 0.3], [2., 30., 40., 0.4], [5., 50., 60., 0.6]]), delimiter=" ")
for wd in (False, True):
    obs = Observation(parameters=[ParameterValues(key=K+"level", values="_"), ParameterValues(key=K+"vec", values=["_", "_"]), ParameterValues(key="detector.characteristics.quantum_efficiency", values="_")], mode="custom", from_file="/tmp/scratch/custom.txt", column_range=[0, 4], with_dask=wd, readout=Readout(times=[1.]))
    probes.ECHO.clear()
    with contextlib.redirect_stderr(io.StringIO()):
        dt = pyxel.run_mode(mode=obs, detector=mk(), pipeline=pipe(), with_inherited_coords=True)
    b = dt["/bucket"].to_dataset(); px = b["pixel"].compute()
    print("custom", "dask" if wd else "seq", dict(b.sizes), list(b.coords), px.isel(time=0,y=0,x=0).values)
    print(probes.ECHO[:3])
# dask outputs
shutil.rmtree("/tmp/scratch/out3", ignore_errors=True)
obs = Observation(parameters=[ParameterValues(key=K+"level", values=[1, 2, 3]), ParameterValues(key=K+"vec", values=[[1., 2.], [3., 4.]])], mode="product", with_dask=True, readout=Readout(times=[1.]), outputs=ObservationOutputs(output_folder="/tmp/scratch/out3", save_data_to_file=[{"detector.pixel.array": ["npy"]}]))
with contextlib.redirect_stderr(io.StringIO()):
    dt = pyxel.run_mode(mode=obs, detector=mk(), pipeline=pipe(), with_inherited_coords=True)
print(dt["/output"])
fn = dt["/output/pixel/filename"].compute()
print(fn.dims, fn.values.ravel()[:3])
print(sorted(os.listdir(glob.glob("/tmp/scratch/out3/*")[0])))
px = dt["/bucket/pixel"].compute()
for lv in (1,2,3):
  for vi in (0,1):
    f = str(fn.sel(level=lv).isel(vec_id=vi).values.ravel()[0]); print(lv, vi, os.path.basename(f), np.load(f)[0,0], float(px.sel(level=lv).isel(vec_id=vi, time=0, y=0, x=0)))
