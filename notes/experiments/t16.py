import sys; sys.path.insert(0, "/tmp/scratch")
import numpy as np, warnings
warnings.simplefilter("ignore")
import pyxel, dask, probes
from pyxel.detectors import *
from pyxel.pipelines import DetectionPipeline, ModelFunction, Processor, FitnessFunction
from pyxel.exposure import Readout
from pyxel.observation import ParameterValues
from pyxel.calibration import FitRange2D, FitRange3D, to_fit_range
from pyxel.calibration.fitting_datatree import ModelFittingDataTree
from pathlib import Path
def mk():
    return CCD(geometry=CCDGeometry(row=6, col=5, pixel_vert_size=10., pixel_horz_size=5., total_thickness=10.), environment=Environment(temperature=100.), characteristics=Characteristics(quantum_efficiency=.5, adc_bit_resolution=16))
def pipe():
    return DetectionPipeline(charge_collection=[ModelFunction(func="probes.cal_model", name="m", arguments={"a": 1.0, "v": [1.0, 1.0], "offset": 0.0})])
yy, xx = np.mgrid[0:6, 0:5]
T0 = (2.0*yy + 3.0*xx + 1.0); T1 = T0 + 10
np.save("/tmp/scratch/target0.npy", T0); np.save("/tmp/scratch/target1.npy", T1)
np.save("/tmp/scratch/cube0.npy", np.stack([T0, T0*2])); np.save("/tmp/scratch/cube1.npy", np.stack([T1, T1*2]))
params = [ParameterValues(key="pipeline.charge_collection.m.arguments.a", values="_", boundaries=(0.1, 10.), logarithmic=True), ParameterValues(key="pipeline.charge_collection.m.arguments.v", values=["_", "_"], boundaries=[(0., 5.), (-2., 2.)])]
def prob(targets, tfr, ofr, readout=None, weights=None, inputs=None, wfile=None):
    return ModelFittingDataTree(processor=Processor(detector=mk(), pipeline=pipe()), variables=params, readout=readout or Readout(), simulation_output="pixel", generations=1, population_size=4,
        fitness_func=FitnessFunction("pyxel.calibration.fitness.sum_of_abs_residuals"), file_path=None, target_fit_range=to_fit_range(tfr), out_fit_range=FitRange3D.from_sequence(ofr), target_filenames=[Path(t) for t in targets], input_arguments=inputs, weights=weights, weights_from_file=wfile, with_inherited_coords=True)
dv = np.array([np.log10(2.0), 3.0, 1.0])
def sim(a=2., v0=3., v1=1., off=0.): return a*yy + v0*xx + v1 + off
print("perfect fit full:", prob(["/tmp/scratch/target0.npy"], [0,6,0,5], [0,6,0,5]).fitness(dv))
dv2 = np.array([np.log10(1.0), 3.0, 1.0])
p = prob(["/tmp/scratch/target0.npy"], [1,4,0,5], [1,4,0,5]); print("subrange:", p.fitness(dv2), "expected", np.abs(T0[1:4]-sim(1.)[1:4]).sum())
try:
    p = prob(["/tmp/scratch/target0.npy"], [1,4,0,5], [1,4,0,5], weights=[2.0]); print("subrange+weights:", p.fitness(dv2), "expected", 2*np.abs(T0[1:4]-sim(1.)[1:4]).sum())
except Exception as e: print("subrange+weights raises", type(e).__name__, str(e)[:100])
p = prob(["/tmp/scratch/target0.npy"], [0,6,0,5], [0,6,0,5], weights=[2.0]); print("full+weights:", p.fitness(dv2), "expected", 2*np.abs(T0-sim(1.)).sum())
# two targets with inputs
inputs=[ParameterValues(key="pipeline.charge_collection.m.arguments.offset", values=[0., 10.])]
p = prob(["/tmp/scratch/target0.npy","/tmp/scratch/target1.npy"], [0,6,0,5], [0,6,0,5], inputs=inputs, weights=[1.0, 3.0]); print("2 targets weights:", p.fitness(dv2), "expected", np.abs(T0-sim(1.)).sum() + 3*np.abs(T1-sim(1.,off=10)).sum())
# shifted equal extent
for tfr, ofr in [([2,5,0,5],[0,3,0,5]), ([0,5,0,5],[3,5,0,5]), ([0,7,0,5],[0,7,0,5]), ([0,6,0,5], [0,6,0,9])]:
    try:
        p = prob(["/tmp/scratch/target0.npy"], tfr, ofr); print(tfr, ofr, "accepted; fitness:", end=" ")
        try: print(p.fitness(dv2))
        except Exception as e: print("fitness raises", type(e).__name__, str(e)[:80])
    except Exception as e: print(tfr, ofr, "rejected", type(e).__name__, str(e)[:60])
# multi readout with weights
ro = Readout(times=[1., 2.])
p = prob(["/tmp/scratch/cube0.npy"], [0,2,0,6,0,5], [0,2,0,6,0,5], readout=ro); print("cube:", p.fitness(dv2), "expected", np.abs(T0-sim(1.)).sum()+np.abs(2*T0-sim(1.)).sum())
p = prob(["/tmp/scratch/cube0.npy"], [0,2,0,6,0,5], [0,2,0,6,0,5], readout=ro, weights=[2.0]); print("cube+weights:", p.fitness(dv2), "expected", 2*(np.abs(T0-sim(1.)).sum()+np.abs(2*T0-sim(1.)).sum()))
