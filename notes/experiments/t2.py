import sys; sys.path.insert(0, "/tmp/scratch")
import numpy as np, warnings, time
warnings.simplefilter("ignore")
from pyxel.detectors import CCD, CCDGeometry, Characteristics, Environment, MKID, MKIDGeometry
def mk():
    return CCD(geometry=CCDGeometry(row=3, col=4, pixel_vert_size=10., pixel_horz_size=10., total_thickness=10.), environment=Environment(temperature=100.), characteristics=Characteristics())
a, b = mk(), mk()
a.signal.array = np.ones((3,4))
print("C13 eq empty-left vs full-right:", b.signal == a.signal)
try: print("C13 eq full-left vs empty-right:", a.signal == b.signal)
except Exception as e: print("C13 eq raises:", type(e).__name__, str(e)[:60])
# Photon += invalid on empty
p = mk().photon
p += np.ones((7,7), dtype=int)
print("C13 photon += wrong shape on empty ->", p.shape, p.dtype)
p = mk().photon
p.array = np.ones((3,4))
try:
    p += np.ones((7,7))
except Exception as e: print("iadd nonempty wrong shape raises", type(e).__name__)
p += -5*np.ones((3,4)); print("photon after += negative:", p.array.min())
# aliasing
p = mk().photon; src = np.ones((3,4)); p += src; src[0,0] = 99; print("alias after += on empty:", p.array[0,0])
# image += 
im = mk().image
im += np.ones((3,4), dtype=np.uint16); print("image +=", im.dtype)
try:
    im += np.ones((3,4), dtype=float)
    print("image += float ->", im.dtype, im.array)
except Exception as e: print("image += float raises", type(e).__name__)
# pixel after rejected assignment
px = mk().pixel; px.array = np.ones((3,4));
try: px.array = np.ones((2,2))
except Exception as e: print("rejected", type(e).__name__)
print(px.array.sum())
try: px.array = np.ones((3,4), dtype=int)
except Exception as e: print("rejected int", type(e).__name__)
# update with list
s = mk().signal; s.update([[1.,2,3,4]]*3); print(s.array.dtype)
try: s.update([[1,2,3,4]]*3)
except Exception as e: print("update int list", type(e).__name__)
# Photon eq
p1, p2 = mk().photon, mk().photon
p1.array = np.ones((3,4)); print("photon eq full vs empty", p1 == p2, p2 == p1)
