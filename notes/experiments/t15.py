import sys; sys.path.insert(0, "/tmp/scratch")
import numpy as np, warnings, time, os
warnings.simplefilter("ignore")
import pyxel, probes
from pyxel.detectors import *
from pyxel.pipelines import DetectionPipeline, ModelFunction
from pyxel.exposure import Exposure, Readout
from pyxel.observation import Observation, ParameterValues
def mk():
    return CCD(geometry=CCDGeometry(row=2, col=3, pixel_vert_size=10., pixel_horz_size=5., total_thickness=10.), environment=Environment(temperature=100.), characteristics=Characteristics(quantum_efficiency=.5, adc_bit_resolution=16))
pipe = DetectionPipeline(photon_collection=[ModelFunction(func="probes.writer", name="w", arguments={"level": 3})], charge_generation=[ModelFunction(func="probes.probe", name="p", arguments={"tag": "cg"})])
import io, contextlib
for n in (1, 3, 8):
    t=time.time()
    for _ in range(20):
        with contextlib.redirect_stderr(io.StringIO()):
            pyxel.run_mode(mode=Exposure(readout=Readout(times=list(range(1,n+1)))), detector=mk(), pipeline=pipe)
    print("exposure steps", n, (time.time()-t)/20*1000, "ms")
t=time.time()
for _ in range(5):
    with contextlib.redirect_stderr(io.StringIO()):
        obs = Observation(parameters=[ParameterValues(key="pipeline.photon_collection.w.arguments.level", values=[1,2,5]), ParameterValues(key="detector.characteristics.quantum_efficiency", values=[0.1, 0.9])], mode="product", readout=Readout(times=[1.,2.]))
        pyxel.run_mode(mode=obs, detector=mk(), pipeline=pipe, with_inherited_coords=True)
print("obs 6 runs x2 steps", (time.time()-t)/5*1000, "ms")
t=time.time()
for _ in range(5):
    with contextlib.redirect_stderr(io.StringIO()):
        obs = Observation(parameters=[ParameterValues(key="pipeline.photon_collection.w.arguments.level", values=[1,2,5]), ParameterValues(key="detector.characteristics.quantum_efficiency", values=[0.1, 0.9])], mode="product", readout=Readout(times=[1.,2.]), with_dask=True)
        dt = pyxel.run_mode(mode=obs, detector=mk(), pipeline=pipe, with_inherited_coords=True); dt["/bucket"].to_dataset().compute()
print("obs dask 6 runs x2 steps", (time.time()-t)/5*1000, "ms")
