import sys; sys.path.insert(0, "/tmp/scratch")
import numpy as np, warnings, time
warnings.simplefilter("ignore")
import pyxel, dask
from pyxel.detectors import *
from pyxel.pipelines import DetectionPipeline, ModelFunction, Processor
from pyxel.exposure import Exposure, Readout
from pyxel.observation import Observation, ParameterValues
import probes
def mk():
    return CCD(geometry=CCDGeometry(row=2, col=3, pixel_vert_size=10., pixel_horz_size=5., total_thickness=10.), environment=Environment(temperature=100.), characteristics=Characteristics(quantum_efficiency=.5, adc_bit_resolution=16))
def pipe():
    return DetectionPipeline(photon_collection=[ModelFunction(func="probes.writer", name="w", arguments={"level": 3})])
mode = sys.argv[1]; wd = sys.argv[2] == "dask"
obs = Observation(parameters=[ParameterValues(key="pipeline.photon_collection.w.arguments.level", values=[1,2,5]), ParameterValues(key="detector.characteristics.quantum_efficiency", values=[0.1, 0.9])], mode=mode, with_dask=wd, readout=Readout(times=[1.,2.]))
t=time.time()
dt = pyxel.run_mode(mode=obs, detector=mk(), pipeline=pipe(), with_inherited_coords=True)
print(time.time()-t)
print(dt["/bucket"])
b = dt["/bucket"].to_dataset().compute()
print(b["photon"].isel(time=0, y=0, x=0).values)
