import sys; sys.path.insert(0, "/tmp/scratch")
import numpy as np, pyxel, warnings
warnings.simplefilter("ignore")
from pyxel.detectors import CCD, CCDGeometry, Characteristics, Environment
from pyxel.pipelines import DetectionPipeline, ModelFunction
from pyxel.exposure import Exposure, Readout
import probes
det = CCD(geometry=CCDGeometry(row=3, col=4, pixel_vert_size=10., pixel_horz_size=10., total_thickness=10.), environment=Environment(temperature=100.), characteristics=Characteristics(quantum_efficiency=0.5, charge_to_volt_conversion=1e-6, pre_amplification=10., full_well_capacity=1e5, adc_bit_resolution=16, adc_voltage_range=(0., 10.)))
pipe = DetectionPipeline(photon_collection=[ModelFunction(func="probes.writer", name="w", arguments={"level": 3})],
   charge_generation=[ModelFunction(func="probes.probe", name="p", arguments={"tag": "cg"})])
exp = Exposure(readout=Readout(times=[1,2,4], non_destructive=True))
dt = pyxel.run_mode(mode=exp, detector=det, pipeline=pipe)
print(dt)
print(probes.TRACE)
