import sys; sys.path.insert(0, "/tmp/scratch")
import numpy as np, warnings, traceback
warnings.simplefilter("ignore")
import pyxel, dask, probes
from pyxel.detectors import *
from pyxel.pipelines import DetectionPipeline, ModelFunction, FitnessFunction
from pyxel.exposure import Exposure, Readout
from pyxel.observation import Observation, ParameterValues
from pyxel.calibration import Calibration, Algorithm
def mk():
    return CCD(geometry=CCDGeometry(row=2, col=3, pixel_vert_size=10., pixel_horz_size=5., total_thickness=10.), environment=Environment(temperature=100.), characteristics=Characteristics(quantum_efficiency=.5, adc_bit_resolution=16))
def pipe(**kw):
    return DetectionPipeline(charge_collection=[ModelFunction(func="probes.maybe_boom", name="mb", arguments=dict(level=0, **kw))])
def show(e):
    print("  type:", type(e).__name__, "| msg has text:", "kaboom-123" in str(e), "| notes:", getattr(e, "__notes__", None))
    c = e.__cause__ or e.__context__
    while c: print("   cause:", type(c).__name__, str(c)[:80]); c = c.__cause__ or c.__context__
print("== exposure")
try: pyxel.run_mode(mode=Exposure(readout=Readout(times=[1.,2.,3.])), detector=mk(), pipeline=pipe(fail_level=0, fail_step=1))
except Exception as e: show(e)
print("== observation sequential")
probes.CALLS.clear()
obs = Observation(parameters=[ParameterValues(key="pipeline.charge_collection.mb.arguments.level", values=[1,2,3,4])], readout=Readout(times=[1.,2.]))
try: pyxel.run_mode(mode=obs, detector=mk(), pipeline=pipe(fail_level=2, fail_step=1), with_inherited_coords=True)
except Exception as e: show(e)
print("  calls:", probes.CALLS)
print("== observation dask")
probes.CALLS.clear()
obs = Observation(parameters=[ParameterValues(key="pipeline.charge_collection.mb.arguments.level", values=[1,2,3,4])], readout=Readout(times=[1.,2.]), with_dask=True)
try:
    dt = pyxel.run_mode(mode=obs, detector=mk(), pipeline=pipe(fail_level=2, fail_step=1), with_inherited_coords=True)
    print("  run_mode returned lazily")
    dt["/bucket/pixel"].compute(); print("  NO ERROR at compute")
except Exception as e: show(e)
print("== calibration")
np.save("/tmp/scratch/t.npy", np.ones((2,3)))
for fl in (None,):
    cal = Calibration(target_data_path=["/tmp/scratch/t.npy"], fitness_function=FitnessFunction("pyxel.calibration.fitness.sum_of_abs_residuals"), algorithm=Algorithm(type="sade", generations=2, population_size=8), parameters=[ParameterValues(key="pipeline.charge_collection.mb.arguments.level", values="_", boundaries=(0., 10.))], result_type="pixel", pygmo_seed=1, num_islands=1, num_evolutions=1, target_fit_range=[0,2,0,3], result_fit_range=[0,2,0,3])
    probes.CALLS.clear()
    # fail when the N-th call
    import probes as P
    orig = P.maybe_boom
    cnt = {"n": 0}
    def failing(detector, level=0, **kw):
        cnt["n"] += 1
        if cnt["n"] == int(sys.argv[1]): raise P.MyErr("kaboom-123")
        return orig(detector, level=level)
    P.maybe_boom = failing
    try:
        dt = pyxel.run_mode(mode=cal, detector=mk(), pipeline=pipe(), with_inherited_coords=True); print("  NO ERROR, calls", cnt)
    except BaseException as e: show(e); print("  calls", cnt)
