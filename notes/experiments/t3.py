import sys; sys.path.insert(0, "/tmp/scratch")
import numpy as np, warnings
warnings.simplefilter("ignore")
from pyxel.detectors import CCD, CCDGeometry, Characteristics, Environment
def mk(r=3,c=4):
    return CCD(geometry=CCDGeometry(row=r, col=c, pixel_vert_size=10., pixel_horz_size=5., total_thickness=10.), environment=Environment(temperature=100.), characteristics=Characteristics())
def add(ch, n, v, h):
    k=len(n); z=np.zeros(k)
    ch.add_charge(particle_type="e", particles_per_cluster=np.array(n,float), init_energy=z, init_ver_position=np.array(v,float), init_hor_position=np.array(h,float), init_z_position=z, init_ver_velocity=z, init_hor_velocity=z, init_z_velocity=z)
d = mk(); ch = d.charge
ch.add_charge_array(np.arange(12.).reshape(3,4))
add(ch, [100.], [15.], [7.5])  # row 1, col 1
print(ch.array)
# negative pos
d = mk(); ch=d.charge
add(ch, [100.], [-5.], [7.5])
print("neg ver pos ->\n", ch.array)
# border exactly
d = mk(); ch=d.charge
add(ch, [1.,2.], [10., 29.999999], [5., 19.9999])
print("border ->\n", ch.array)
# remove all then read
d = mk(); ch=d.charge
add(ch, [7.], [5.], [2.])
print(ch.array.sum()); ch.remove_from_frame(); print("after remove all:", ch.array.sum(), len(ch.frame))
d = mk(); ch=d.charge
add(ch, [7., 8.], [5., 15.], [2., 2.])
ch.remove_from_frame([0]); print("after remove [0]:", ch.array.sum(), len(ch.frame))
# array add negative with frame
d = mk(); ch=d.charge
add(ch, [7.], [5.], [2.]); ch.add_charge_array(-np.ones((3,4))); print("neg array w/ frame:", ch.array.sum())
d = mk(); ch=d.charge
ch.add_charge_array(-np.ones((3,4))); print("neg array no frame:", ch.array.sum())
# empty resets
add(ch, [7.], [5.], [2.]); ch.empty(); print("after empty", ch.array.sum(), len(ch.frame))
