import sys; sys.path.insert(0, "/tmp/scratch")
import numpy as np, warnings, time, logging
warnings.simplefilter("ignore")
import pyxel, dask
from pyxel.detectors import *
from pyxel.pipelines import DetectionPipeline, ModelFunction, Processor, FitnessFunction
from pyxel.exposure import Exposure, Readout
from pyxel.observation import ParameterValues
from pyxel.calibration import Calibration, Algorithm
import probes
def mk():
    return CCD(geometry=CCDGeometry(row=6, col=5, pixel_vert_size=10., pixel_horz_size=5., total_thickness=10.), environment=Environment(temperature=100.), characteristics=Characteristics(quantum_efficiency=.5, adc_bit_resolution=16))
def pipe(noise=0.0):
    return DetectionPipeline(charge_collection=[ModelFunction(func="probes.cal_model", name="m", arguments={"a": 1.0, "v": [1.0, 1.0], "offset": 0.0, "noise": noise})])
yy, xx = np.mgrid[0:6, 0:5]
np.save("/tmp/scratch/target0.npy", (2.0*yy + 3.0*xx + 1.0).astype(float))
np.save("/tmp/scratch/target1.npy", (2.0*yy + 3.0*xx + 1.0 + 10.).astype(float))
def cal(**kw):
    base = dict(target_data_path=["/tmp/scratch/target0.npy"], fitness_function=FitnessFunction("pyxel.calibration.fitness.sum_of_abs_residuals"),
        algorithm=Algorithm(type="sade", generations=3, population_size=8),
        parameters=[ParameterValues(key="pipeline.charge_collection.m.arguments.a", values="_", boundaries=(0.1, 10.), logarithmic=True),
                    ParameterValues(key="pipeline.charge_collection.m.arguments.v", values=["_", "_"], boundaries=[(0., 5.), (-2., 2.)])],
        result_type="pixel", pygmo_seed=123, num_islands=2, num_evolutions=2, num_best_decisions=3)
    base.update(kw)
    return Calibration(**base)
which = sys.argv[1]
if which == "default":
    try:
        dt = pyxel.run_mode(mode=cal(), detector=mk(), pipeline=pipe()); print(dt)
    except Exception as e: print("default fit range:", type(e).__name__, e)
if which == "ranges":
    c = cal(target_fit_range=[0,6,0,5], result_fit_range=[0,6,0,5])
    t=time.time(); dt = pyxel.run_mode(mode=c, detector=mk(), pipeline=pipe(), with_inherited_coords=True); print(time.time()-t)
    print(dt)
    print(dt["/champion/fitness"].values, dt["/champion/parameters"].values, dt["/champion/decision"].values)
    print(len(probes.CAL_LOG), probes.CAL_LOG[:3])
    try:
        print(dt["/simulated/pixel"].compute().values[0,0,0])
    except Exception as e: print("simulated compute:", type(e).__name__, str(e)[:300])
if which == "sim":
    c = cal(target_fit_range=[0,6,0,5], result_fit_range=[0,6,0,5])
    dt = pyxel.run_mode(mode=c, detector=mk(), pipeline=pipe(), with_inherited_coords=True)
    import traceback
    try:
        dt["/simulated/pixel"].compute()
    except Exception as e: traceback.print_exc()
if which == "seed":
    res = []
    for rep in range(2):
        np.random.seed(rep*7+1)
        c = cal(target_fit_range=[0,6,0,5], result_fit_range=[0,6,0,5], pipeline_seed=99, num_islands=1)
        with dask.config.set(scheduler="synchronous"):
            dt = pyxel.run_mode(mode=c, detector=mk(), pipeline=pipe(noise=1.0), with_inherited_coords=True)
        res.append((dt["/champion/fitness"].values.copy(), dt["/champion/parameters"].values.copy()))
    print("seeded calibration reproducible (synchronous scheduler):", np.array_equal(res[0][0], res[1][0]) and np.array_equal(res[0][1], res[1][1]))
    print(res[0][0], res[1][0])
if which == "sim2":
    c = cal(target_fit_range=[0,6,0,5], result_fit_range=[0,6,0,5])
    dt = pyxel.run_mode(mode=c, detector=mk(), pipeline=pipe(), with_inherited_coords=True)
    sim = dt["/simulated/pixel"].compute()
    pars = dt["/champion/parameters"].isel(evolution=-1).values
    fit = dt["/champion/fitness"].isel(evolution=-1).values
    tgt = np.load("/tmp/scratch/target0.npy")
    for isl in range(2):
        a, v0, v1 = pars[isl]
        exp = a*yy + v0*xx + v1
        print("island", isl, "sim equals recomputed:", np.allclose(sim.values[isl,0,0], exp), "fitness recomputed", np.abs(tgt-exp).sum(), "reported", fit[isl])
    try: print(dt["/simulated/photon"].compute().shape)
    except Exception as e: print("photon:", type(e).__name__)
