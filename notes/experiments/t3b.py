import sys; sys.path.insert(0, "/tmp/scratch")
import numpy as np
from t3 import mk, add
d = mk(); ch=d.charge
add(ch, [100.], [35.], [7.5])   # row 3 (out of 0..2)
print("beyond ver ->", ch.array.sum())
add(ch, [100.], [1e6], [1e6])
print("far beyond ->", ch.array.sum())
