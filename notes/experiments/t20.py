import sys; sys.path.insert(0, "/tmp/scratch")
import numpy as np, warnings, xarray as xr, itertools
warnings.simplefilter("ignore")
from pyxel.detectors import *
from pyxel.detectors import Detector
from t3h import add
rng = np.random.default_rng(5)
def mk(kind):
    geo = dict(row=3, col=4, pixel_vert_size=10., pixel_horz_size=5., total_thickness=10., pixel_scale=0.5)
    env = Environment(temperature=100., wavelength=WavelengthHandling(cut_on=400., cut_off=700., resolution=100)) if kind != "CMOS" else Environment(temperature=50., wavelength=600.)
    ch = Characteristics(quantum_efficiency=.5, charge_to_volt_conversion=1e-6, pre_amplification=3., full_well_capacity=1e5, adc_bit_resolution=16, adc_voltage_range=(0., 10.))
    if kind == "CCD": return CCD(geometry=CCDGeometry(**geo), environment=env, characteristics=ch)
    if kind == "CMOS": return CMOS(geometry=CMOSGeometry(**geo), environment=env, characteristics=ch)
    if kind == "MKID": return MKID(geometry=MKIDGeometry(**geo), environment=env, characteristics=ch)
    geo.pop("pixel_scale")
    return APD(geometry=APDGeometry(**geo), environment=env, characteristics=APDCharacteristics(roic_gain=0.5, quantum_efficiency=.6, full_well_capacity=1e5, adc_bit_resolution=16, adc_voltage_range=(0., 10.), avalanche_gain=2.0, pixel_reset_voltage=5.0))
from pyxel.detectors.environment import WavelengthHandling
issues = []
for kind in ("CCD","CMOS","MKID","APD"):
  for fdt, idt in itertools.product(("float16","float32","float64"), ("uint8","uint16","uint32","uint64")):
    d = mk(kind)
    d.photon.array = rng.uniform(0,100,(3,4)).astype(fdt)
    d.pixel.array = rng.uniform(0,100,(3,4)).astype(fdt)
    d.signal.array = rng.uniform(0,100,(3,4)).astype(fdt)
    d.image.array = rng.integers(0, 200, (3,4)).astype(idt)
    d.charge.add_charge_array(rng.uniform(0,10,(3,4)).astype(fdt))
    fn = f"/tmp/scratch/rt_{kind}.asdf"
    try:
        d.save(fn); e = Detector.load(fn)
    except Exception as ex:
        issues.append((kind, fdt, idt, "EXC", type(ex).__name__, str(ex)[:80])); continue
    for b in ("photon","pixel","signal","image"):
        a0, a1 = getattr(d,b)._array, getattr(e,b)._array
        if a1 is None or a0.dtype != a1.dtype or not np.array_equal(a0, a1): issues.append((kind, b, str(a0.dtype), None if a1 is None else str(a1.dtype)))
    if not np.array_equal(d.charge.array, e.charge.array) or d.charge.array.dtype != e.charge.array.dtype: issues.append((kind, "charge", fdt, str(e.charge.array.dtype)))
    if d.geometry.to_dict() != e.geometry.to_dict(): issues.append((kind, "geometry", d.geometry.to_dict(), e.geometry.to_dict()))
    if d.environment.to_dict() != e.environment.to_dict(): issues.append((kind, "env", d.environment.to_dict(), e.environment.to_dict()))
    if d.characteristics.to_dict() != e.characteristics.to_dict(): issues.append((kind, "char", d.characteristics.to_dict(), e.characteristics.to_dict()))
    if type(d) is not type(e): issues.append((kind, "type"))
print(len(issues)); 
seen=set()
for i in issues:
    k = i[:2] if i[1] not in ("photon","pixel","signal","image","charge") else (i[1], i[2], i[3])
    if k in seen: continue
    seen.add(k); print(i)
