import sys; sys.path.insert(0, "/tmp/scratch")
import numpy as np, warnings
warnings.simplefilter("ignore")
from pyxel.detectors import *
from pyxel.models.charge_collection import simple_persistence, persistence
from pyxel.models.charge_transfer import cdm
from pyxel.models.readout_electronics import simple_adc, sar_adc
def mkcmos():
    d = CMOS(geometry=CMOSGeometry(row=3, col=4, pixel_vert_size=10., pixel_horz_size=5., total_thickness=10.), environment=Environment(temperature=100.), characteristics=Characteristics(quantum_efficiency=.5, adc_bit_resolution=16, adc_voltage_range=(0.,10.), full_well_capacity=1e5))
    d.set_readout(times=[1., 5., 100.], start_time=0.)
    return d
rng = np.random.default_rng(0)
for nsp in (1,2,3,5):
  worst = 0
  for trial in range(200):
    d = mkcmos()
    tc = list(rng.uniform(0.1, 50, nsp)); dens = list(rng.uniform(0, 1.0/nsp, nsp)); caps = list(rng.uniform(0, 5000, nsp)) if trial%2 else None
    tot_prev = None
    for step, dtm in enumerate([1., 4., 95.]):
        d.readout_properties.time_step = dtm
        d.pixel.array = rng.uniform(0, 1e4, (3,4)) if step != 2 else np.zeros((3,4))
        before = d.pixel.array.sum() + (d.persistence.trapped_charge_array.sum() if d.has_persistence() else 0)
        simple_persistence(d, trap_time_constants=tc, trap_densities=dens, trap_capacities=caps)
        after = d.pixel.array.sum() + d.persistence.trapped_charge_array.sum()
        worst = max(worst, abs(after-before)/max(before,1))
        assert d.persistence.trapped_charge_array.min() >= -1e-9, "neg trapped"
  print("species", nsp, "worst relative conservation error:", worst)
