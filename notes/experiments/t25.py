import sys; sys.path.insert(0, "/tmp/scratch")
import numpy as np, warnings, io, contextlib, xarray as xr
warnings.simplefilter("ignore")
import pyxel, probes
from pyxel.detectors import *
from pyxel.pipelines import DetectionPipeline, ModelFunction
from pyxel.exposure import Exposure, Readout
from t3h import add
LOG = []
def first(detector):
    d = detector
    LOG.append(dict(i=d.pipeline_count, t=d.time, dt=d.time_step, abs=d.absolute_time, first=d.is_first_readout, last=d.is_last_readout,
       photon=d.photon._array is None, signal=d.signal._array is None, image=d.image._array is None, charge0=bool((d.charge.array==0).all()), frame=len(d.charge.frame), scene=d.scene.data.is_empty if hasattr(d.scene.data,'is_empty') else None, pixel=d.pixel._array.copy() if d.pixel._array is not None else None))
def write(detector):
    d = detector; shp = d.geometry.shape; i = d.pipeline_count
    d.photon.array = np.full(shp, 1.+i); d.pixel.array = d.pixel.array + (1.+i); d.signal.array = np.full(shp, 2.+i); d.image.array = np.full(shp, 3+i, dtype=np.uint16)
    d.charge.add_charge_array(np.full(shp, 5.))
probes.first = first; probes.write = write
def mk(): return CCD(geometry=CCDGeometry(row=2, col=3, pixel_vert_size=10., pixel_horz_size=10.), environment=Environment(temperature=100.), characteristics=Characteristics(quantum_efficiency=.5, adc_bit_resolution=16))
pipe = DetectionPipeline(scene_generation=[ModelFunction(func="probes.first", name="f")], data_processing=[ModelFunction(func="probes.write", name="w")])
d = mk()
# leftovers
d.photon.array = np.full((2,3), 9.); d.pixel.array = np.full((2,3), 99.); d.signal.array = np.full((2,3), 9.); d.image.array = np.full((2,3), 9, dtype=np.uint8); add(d.charge, [5.], [5.], [5.])
for nd in (True, False):
    LOG.clear()
    with contextlib.redirect_stderr(io.StringIO()):
        pyxel.run_mode(mode=Exposure(readout=Readout(times=[2., 3., 7.], start_time=0.5, non_destructive=nd)), detector=d, pipeline=pipe)
    for l in LOG: print(nd, {k: (v if k != "pixel" else float(v[0,0])) for k, v in l.items()})
# invalid via setter
r = Readout(times=[1., 2., 3.])
try: r.times = [3., 2., 1.]; print("times setter accepted non-increasing")
except Exception as e: print("times setter rejects")
LOG.clear()
try:
    with contextlib.redirect_stderr(io.StringIO()):
        pyxel.run_mode(mode=Exposure(readout=r), detector=mk(), pipeline=pipe)
    print("RUN ACCEPTED invalid schedule; steps:", [(l['t'], l['dt']) for l in LOG])
except Exception as e: print("run rejects:", type(e).__name__, "| models executed:", len(LOG))
for bad in ([0., 1.], [1., 1.], [2., 1.], [], 0, [1., float('nan')], "numpy.array([3,2])"):
    try: Readout(times=bad); print("ctor ACCEPTS", bad)
    except Exception as e: print("ctor rejects", bad, type(e).__name__)
try: Readout(times=[1.,2.], start_time=1.0); print("ACCEPT start==first")
except Exception as e: print("rejects start==first")
