import sys; sys.path.insert(0, "/tmp/scratch")
import numpy as np, warnings
warnings.simplefilter("ignore")
import pyxel, probes
from pyxel.detectors import *
from pyxel.pipelines import DetectionPipeline, ModelFunction
from pyxel.exposure import Exposure, Readout
def mk():
    return CCD(geometry=CCDGeometry(row=2, col=3, pixel_vert_size=10., pixel_horz_size=5., total_thickness=10.), environment=Environment(temperature=100.), characteristics=Characteristics(quantum_efficiency=.5, adc_bit_resolution=16))
def run(plan, times, nd=False, debug=False, wic=False):
    probes.SNAP.clear()
    pipe = DetectionPipeline(photon_collection=[ModelFunction(func="probes.step_writer", name="w", arguments={"plan": plan})], data_processing=[ModelFunction(func="probes.snap", name="s")])
    return pyxel.run_mode(mode=Exposure(readout=Readout(times=times, non_destructive=nd)), detector=mk(), pipeline=pipe, debug=debug, with_inherited_coords=wic)
cases = {
 "no image 2 steps": ({"pixel": ([1., 2.], "float64")}, [1., 2.]),
 "image uint8": ({"image": ([1, 2, 3], "uint8"), "pixel": ([1.,2.,3.], "float32")}, [1., 2., 4.]),
 "image uint64 big": ({"image": ([2**63+5, 2, 2**64-1], "uint64")}, [1., 2., 4.]),
 "image only some steps": ({"image": ([1, None, 3], "uint16"), "pixel": ([1.,2.,3.], "float64")}, [1., 2., 4.]),
 "photon only step 1": ({"photon": ([None, 5., None], "float64"), "image": ([1,2,3], "uint16")}, [1., 2., 4.]),
 "photon3d": ({"photon3d": ([1., 2.], "float64"), "image": ([1,2], "uint16")}, [1., 2.]),
 "float16 signal": ({"signal": ([1.5, 2.5], "float16"), "image": ([1,2], "uint16")}, [1., 2.]),
}
for name, (plan, times) in cases.items():
    try:
        dt = run(plan, times)
        ds = dt.to_dataset()
        out = {k: (str(v.dtype), v.shape, v.values.ravel()[[0,-1]].tolist()) for k, v in ds.data_vars.items()}
        print(name, "->", out)
    except Exception as e:
        print(name, "-> RAISES", type(e).__name__, str(e).splitlines()[0][:100])
