import sys, os; sys.path.insert(0, "/tmp/scratch")
import numpy as np, warnings, glob
warnings.simplefilter("ignore")
import pyxel
from pyxel.detectors import *
from pyxel.pipelines import DetectionPipeline, ModelFunction
from pyxel.exposure import Exposure, Readout
from pyxel.observation import Observation, ParameterValues
from pyxel.outputs import ExposureOutputs, ObservationOutputs
def mk():
    return CCD(geometry=CCDGeometry(row=2, col=3, pixel_vert_size=10., pixel_horz_size=5., total_thickness=10.), environment=Environment(temperature=100.), characteristics=Characteristics(quantum_efficiency=.5, adc_bit_resolution=16))
# C20 cache staleness
np.save("/tmp/scratch/img.npy", np.ones((2,3)))
pipe = DetectionPipeline(photon_collection=[ModelFunction(func="pyxel.models.photon_collection.load_image", name="li", arguments={"image_file": "/tmp/scratch/img.npy"})])
r1 = pyxel.run_mode(mode=Exposure(readout=Readout(times=[1.])), detector=mk(), pipeline=pipe)["photon"].values[0]
np.save("/tmp/scratch/img.npy", np.ones((2,3))*7)
r2 = pyxel.run_mode(mode=Exposure(readout=Readout(times=[1.])), detector=mk(), pipeline=pipe)["photon"].values[0]
print("C20 after rewrite: first", r1[0,0], "second", r2[0,0], "(expected 7)")
# C19 outputs exposure
import shutil; shutil.rmtree("/tmp/scratch/out", ignore_errors=True)
wp = DetectionPipeline(photon_collection=[ModelFunction(func="probes.writer", name="w", arguments={"level": 3})])
for i in range(3):
    exp = Exposure(readout=Readout(times=[1., 2.]), outputs=ExposureOutputs(output_folder="/tmp/scratch/out", save_data_to_file=[{"detector.image.array": ["fits", "npy"]}, {"detector.pixel.array": ["npy"]}]))
    dt = pyxel.run_mode(mode=exp, detector=mk(), pipeline=wp, with_inherited_coords=True)
print(sorted(os.listdir("/tmp/scratch/out")))
print(dt["/output"])
print([str(x) for x in dt["/output/image/filename"].values])
# sequential observation
obs = Observation(parameters=[ParameterValues(key="pipeline.photon_collection.w.arguments.level", values=[1,2,5])], outputs=ObservationOutputs(output_folder="/tmp/scratch/out2", save_data_to_file=[{"detector.image.array": ["npy"]}]), readout=Readout(times=[1.]))
shutil.rmtree("/tmp/scratch/out2", ignore_errors=True)
dt = pyxel.run_mode(mode=obs, detector=mk(), pipeline=wp, with_inherited_coords=True)
print(dt["/output"])
for f in sorted(glob.glob("/tmp/scratch/out2/*/*")): print(f, np.load(f)[0,0])
print(dt["/output/image/filename"].values if "image" in dt["/output"] else dt["/output"].to_dict())
