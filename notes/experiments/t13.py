import sys; sys.path.insert(0, "/tmp/scratch")
import numpy as np, warnings, yaml
warnings.simplefilter("ignore")
import pyxel, probes
doc = {
 "exposure": {"readout": {"times": [1., 3.], "non_destructive": False}},
 "ccd_detector": {"geometry": {"row": 2, "col": 3, "total_thickness": 10., "pixel_vert_size": 10., "pixel_horz_size": 10.}, "environment": {"temperature": 100.}, "characteristics": {"quantum_efficiency": 0.5, "adc_bit_resolution": 16, "adc_voltage_range": [0., 10.]}},
 "pipeline": {
   "data_processing": [{"name": "z", "func": "probes.probe", "enabled": True, "arguments": {"tag": "dp"}}],
   "charge_generation": [{"name": "a", "func": "probes.probe", "arguments": {"tag": "cg1", "foo": [1,2]}}, {"name": "b", "func": "probes.probe", "enabled": False, "arguments": {"tag": "cg2"}}],
   "scene_generation": None,
   "photon_collection": [{"name": "w", "func": "probes.writer", "arguments": {"level": 4}}],
 }}
open("/tmp/scratch/c.yaml","w").write(yaml.safe_dump(doc, sort_keys=False))
cfg = pyxel.load("/tmp/scratch/c.yaml")
dt = pyxel.run_mode(mode=cfg.running_mode, detector=cfg.detector, pipeline=cfg.pipeline, debug=True, with_inherited_coords=True)
print([ (t[0], t[1], t[2]) for t in probes.TRACE])
print(dt["/intermediate"])
