import sys; sys.path.insert(0, "/tmp/scratch")
import numpy as np, warnings, time, os
warnings.simplefilter("ignore")
import pyxel, dask, probes
from pyxel.detectors import *
from pyxel.pipelines import DetectionPipeline, ModelFunction
from pyxel.exposure import Readout
from pyxel.observation import Observation, ParameterValues
def mk():
    return CCD(geometry=CCDGeometry(row=2, col=3), environment=Environment(temperature=100.), characteristics=Characteristics(quantum_efficiency=.5, adc_bit_resolution=16))
if __name__ == "__main__":
    pipe = DetectionPipeline(photon_collection=[ModelFunction(func="probes.writer", name="w", arguments={"level": 3})])
    obs = Observation(parameters=[ParameterValues(key="pipeline.photon_collection.w.arguments.level", values=[1,2,5,7])], readout=Readout(times=[1.,2.]), with_dask=True)
    dt = pyxel.run_mode(mode=obs, detector=mk(), pipeline=pipe, with_inherited_coords=True)
    t=time.time()
    with dask.config.set(scheduler="processes", num_workers=4):
        r = dt["/bucket/photon"].compute()
    print("processes ok", r.isel(time=0,y=0,x=0).values, time.time()-t)
    import pygmo as pg
    print([a for a in ("nlopt","sade","sga","de","pso") if hasattr(pg,a)])
