import sys, inspect, importlib, pkgutil, warnings
warnings.simplefilter("ignore")
import numpy as np
import pyxel.models as M
found = []
for grp in ("scene_generation","photon_collection","phasing","charge_generation","charge_collection","charge_transfer","charge_measurement","signal_transfer","readout_electronics","data_processing"):
    try: mod = importlib.import_module(f"pyxel.models.{grp}")
    except Exception as e: print("import fail", grp, e); continue
    for name, fn in inspect.getmembers(mod, inspect.isfunction):
        try: sig = inspect.signature(fn)
        except Exception: continue
        if "seed" in sig.parameters and list(sig.parameters)[0] == "detector":
            found.append((grp, name, [p for p in sig.parameters if p not in ("detector",)], [p for p,v in sig.parameters.items() if v.default is inspect._empty and p!="detector"]))
for f in found: print(f[0], f[1], "required:", f[3])
print(len(found))
