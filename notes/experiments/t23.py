import sys; sys.path.insert(0, "/tmp/scratch")
import numpy as np, warnings, io, contextlib, copy
warnings.simplefilter("ignore")
import pyxel, probes, dask
from pyxel.detectors import *
from pyxel.pipelines import DetectionPipeline, ModelFunction, FitnessFunction
from pyxel.exposure import Readout, Exposure
from pyxel.observation import Observation, ParameterValues
from pyxel.calibration import Calibration, Algorithm
def mk():
    d = CMOS(geometry=CMOSGeometry(row=2, col=3), environment=Environment(temperature=100.), characteristics=Characteristics(quantum_efficiency=.5, adc_bit_resolution=16))
    d._memory["n"] = 5; d.pixel.array = np.full((2,3), 42.); d.photon.array = np.full((2,3), 7.)
    return d
def pipe(): return DetectionPipeline(charge_collection=[ModelFunction(func="probes.memory", name="m", arguments={"bump": 1.0, "lst": [0]}),
      ModelFunction(func="pyxel.models.charge_collection.simple_persistence", name="sp", arguments={"trap_time_constants": [1., 10.], "trap_densities": [0.1, 0.2]})])
def snap(d, p, ro):
    return (copy.deepcopy(d._memory), d.pixel._array.copy(), d.photon._array.copy(), d.has_persistence(), [ (m.name, m.enabled, copy.deepcopy(dict(m.arguments))) for m in p.charge_collection.models], ro.times.copy(), ro.start_time, ro.non_destructive)
def same(a, b):
    return a[0]==b[0] and np.array_equal(a[1],b[1]) and np.array_equal(a[2],b[2]) and a[3]==b[3] and a[4]==b[4] and np.array_equal(a[5],b[5]) and a[6:]==b[6:]
K = "pipeline.charge_collection.m.arguments.bump"
for wd in (False, True):
    d, p, ro = mk(), pipe(), Readout(times=[1., 2., 3.], non_destructive=True)
    obs = Observation(parameters=[ParameterValues(key=K, values=[1., 2., 3.])], with_dask=wd, readout=ro)
    s0 = snap(d, p, ro)
    with contextlib.redirect_stderr(io.StringIO()):
        dt = pyxel.run_mode(mode=obs, detector=d, pipeline=p, with_inherited_coords=True); px = dt["/bucket/pixel"].compute()
    print("obs dask" if wd else "obs seq", "caller objects unchanged:", same(s0, snap(d,p,ro)), px.isel(y=0,x=0).values.tolist())
    # standalone
    for bump in (1., 2., 3.):
        d2, p2 = mk(), pipe(); p2.charge_collection.models[0].arguments["bump"] = bump
        with contextlib.redirect_stderr(io.StringIO()):
            e = pyxel.run_mode(mode=Exposure(readout=Readout(times=[1.,2.,3.], non_destructive=True)), detector=d2, pipeline=p2)
        print("   standalone bump", bump, e["pixel"].isel(y=0,x=0).values.tolist())
np.save("/tmp/scratch/t23.npy", np.ones((2,3)))
d, p, ro = mk(), pipe(), Readout()
cal = Calibration(target_data_path=["/tmp/scratch/t23.npy"], fitness_function=FitnessFunction("pyxel.calibration.fitness.sum_of_abs_residuals"), algorithm=Algorithm(type="sade", generations=2, population_size=8), parameters=[ParameterValues(key=K, values="_", boundaries=(0., 10.))], result_type="pixel", pygmo_seed=1, target_fit_range=[0,2,0,3], result_fit_range=[0,2,0,3], readout=ro)
s0 = snap(d,p,ro)
with contextlib.redirect_stderr(io.StringIO()), contextlib.redirect_stdout(io.StringIO()):
    dt = pyxel.run_mode(mode=cal, detector=d, pipeline=p, with_inherited_coords=True)
print("calibration caller objects unchanged:", same(s0, snap(d,p,ro)))
