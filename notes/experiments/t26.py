import sys; sys.path.insert(0, "/tmp/scratch")
import numpy as np, warnings, io, contextlib, threading, os, shutil, datetime as _dt
warnings.simplefilter("ignore")
import pyxel, probes
from pyxel.outputs import outputs as O
# C19: frozen clock + concurrency
class FakeDT(_dt.datetime):
    @classmethod
    def now(cls, tz=None): return cls(2030, 1, 2, 3, 4, 5)
O.datetime = FakeDT
shutil.rmtree("/tmp/scratch/out4", ignore_errors=True); os.makedirs("/tmp/scratch/out4/run_20300102_030405_2"); open("/tmp/scratch/out4/run_20300102_030405_4","w").write("file!")
res = []; bar = threading.Barrier(12)
def start():
    bar.wait(); res.append(O.create_output_directory("/tmp/scratch/out4"))
ts = [threading.Thread(target=start) for _ in range(12)]; [t.start() for t in ts]; [t.join() for t in ts]
print(len(res), len(set(res)), sorted(os.path.basename(str(r)) for r in res))
print(open("/tmp/scratch/out4/run_20300102_030405_4").read())
# C10 problem-level
from pyxel.detectors import *
from pyxel.pipelines import DetectionPipeline, ModelFunction, Processor, FitnessFunction
from pyxel.exposure import Readout
from pyxel.observation import ParameterValues
from pyxel.calibration import to_fit_range, FitRange3D
from pyxel.calibration.fitting_datatree import ModelFittingDataTree
from pathlib import Path
np.save("/tmp/scratch/t26.npy", np.ones((2,3)))
def mk(): return CCD(geometry=CCDGeometry(row=2, col=3), environment=Environment(temperature=100.), characteristics=Characteristics(quantum_efficiency=.5, adc_bit_resolution=16))
pipe = DetectionPipeline(charge_collection=[ModelFunction(func="probes.echo", name="e", arguments={"level": 9.0, "vec": [0.5, 0.25, 0.1], "name": "a"})])
K = "pipeline.charge_collection.e.arguments."
params = [ParameterValues(key=K+"vec", values=["_","_","_"], boundaries=[(1., 10.), (10., 100.), (100., 1000.)], logarithmic=True),
          ParameterValues(key=K+"level", values="_", boundaries=(-5., 5.)),
          ParameterValues(key="detector.characteristics.quantum_efficiency", values="_", boundaries=(0.01, 1.0), logarithmic=True)]
p = ModelFittingDataTree(processor=Processor(detector=mk(), pipeline=pipe), variables=params, readout=Readout(), simulation_output="pixel", generations=1, population_size=4, fitness_func=FitnessFunction("pyxel.calibration.fitness.sum_of_abs_residuals"), file_path=None, target_fit_range=to_fit_range([0,2,0,3]), out_fit_range=FitRange3D.from_sequence([0,2,0,3]), target_filenames=[Path("/tmp/scratch/t26.npy")], with_inherited_coords=True)
print(p.get_bounds())
dv = np.array([0.5, 1.5, 2.5, -3.0, -1.0])
print(p.convert_to_parameters(dv))
probes.ECHO.clear()
with contextlib.redirect_stderr(io.StringIO()): p.fitness(dv)
print(probes.ECHO)
