import numpy as np
from pyxel.detectors import CCD, CCDGeometry, Characteristics, Environment
def mk(r=3,c=4):
    return CCD(geometry=CCDGeometry(row=r, col=c, pixel_vert_size=10., pixel_horz_size=5., total_thickness=10.), environment=Environment(temperature=100.), characteristics=Characteristics())
def add(ch, n, v, h):
    k=len(n); z=np.zeros(k)
    ch.add_charge(particle_type="e", particles_per_cluster=np.array(n,float), init_energy=z, init_ver_position=np.array(v,float), init_hor_position=np.array(h,float), init_z_position=z, init_ver_velocity=z, init_hor_velocity=z, init_z_velocity=z)
