import sys; sys.path.insert(0, "/tmp/scratch")
import numpy as np, warnings
warnings.simplefilter("ignore")
from pyxel.detectors import *
from pyxel.models.charge_transfer import cdm
from pyxel.models.readout_electronics import simple_adc, sar_adc, sar_adc_with_noise
from pyxel.models.readout_electronics.simple_adc import apply_simple_adc
from pyxel.util import get_dtype
def mkccd(bits=16, vr=(0.,10.)):
    return CCD(geometry=CCDGeometry(row=5, col=4, pixel_vert_size=10., pixel_horz_size=5., total_thickness=10.), environment=Environment(temperature=100.), characteristics=Characteristics(quantum_efficiency=.5, adc_bit_resolution=bits, adc_voltage_range=vr, full_well_capacity=1e5))
rng = np.random.default_rng(1)
# CDM
for (vg,t) in [(1.6e-10, 9e-4), (0.0, 9e-4), (1.6e-10, 0.0), (0.0, 0.0), (1.0, 10.0)]:
    d = mkccd(); d.pixel.array = rng.uniform(0, 1e4, (5,4)); tin = d.pixel.array.sum()
    try:
        cdm(d, direction="parallel", beta=0.3, trap_release_times=[5e-3, 1e-2], trap_densities=[1., 10.], sigma=[1e-15, 1e-15], max_electron_volume=vg, transfer_period=t)
        print("cdm vg,t", vg, t, "in", tin, "out", d.pixel.array.sum(), "min", d.pixel.array.min())
    except Exception as e: print("cdm vg,t", vg, t, "raises", type(e).__name__, e)
# ADC full-scale
for bits in (4, 8, 16, 32, 52, 53, 54, 60, 63, 64):
    d = mkccd(bits, (0., 10.)); d.signal.array = np.array([[ -1., 0., 10., 11.]]*5)
    simple_adc(d); a = d.image.array[0]
    d2 = mkccd(bits, (0., 10.)); d2.signal.array = np.array([[ -1., 0., 10., 11.]]*5); sar_adc(d2); s = d2.image.array[0]
    print(bits, d.image.dtype, [int(x) for x in a], "fullscale", 2**bits-1, "simple ok:", int(a[2]) == 2**bits-1, "| sar", [int(x) for x in s], "ok:", int(s[2]) == 2**bits-1)
# fl(x*K)/x != K search
bad = 0
for _ in range(200000):
    vmin = rng.uniform(-10, 10); vmax = vmin + rng.uniform(1e-3, 20); bits = int(rng.integers(4, 33))
    out = apply_simple_adc(np.array([vmax, vmax+1]), bits, vmin, vmax, get_dtype(bits))
    if int(out[0]) != 2**bits-1 or int(out[1]) != 2**bits-1:
        bad += 1
        if bad < 4: print("ADC top not full scale:", vmin, vmax, bits, out)
print("bad top-of-range cases:", bad, "/200000")
