import sys; sys.path.insert(0, "/tmp/scratch")
import numpy as np, warnings, io, contextlib, os
warnings.simplefilter("ignore")
import pyxel, probes, dask
from pyxel.detectors import *
from pyxel.pipelines import DetectionPipeline, ModelFunction, FitnessFunction
from pyxel.exposure import Readout, Exposure
from pyxel.observation import Observation, ParameterValues
from pyxel.calibration import Calibration, Algorithm
def mk(): return CCD(geometry=CCDGeometry(row=2, col=3), environment=Environment(temperature=100.), characteristics=Characteristics(quantum_efficiency=.5, adc_bit_resolution=16))
def pipe(): return DetectionPipeline(charge_collection=[ModelFunction(func="probes.echo", name="e", arguments={"level": 9.0, "vec": [0.5, 0.25], "name": "a"})])
np.save("/tmp/scratch/t28.npy", np.ones((2,3)))
devnull = os.open(os.devnull, os.O_WRONLY); saved = os.dup(1)
for key in ("detector.characteristics.quantum_efficiencyy", "pipeline.charge_collection.e.arguments.levell", "pipeline.charge_collection.e.enabledd"):
    cal = Calibration(target_data_path=["/tmp/scratch/t28.npy"], fitness_function=FitnessFunction("pyxel.calibration.fitness.sum_of_abs_residuals"), algorithm=Algorithm(type="sade", generations=1, population_size=8), parameters=[ParameterValues(key=key, values="_", boundaries=(0.1, 0.9))], result_type="pixel", pygmo_seed=1, target_fit_range=[0,2,0,3], result_fit_range=[0,2,0,3])
    probes.ECHO.clear()
    os.dup2(devnull, 1)
    try:
        with contextlib.redirect_stderr(io.StringIO()):
            dt = pyxel.run_mode(mode=cal, detector=mk(), pipeline=pipe(), with_inherited_coords=True)
        msg = f"SILENTLY RAN, {len(probes.ECHO)} evaluations, distinct inputs seen by model: {len(set(probes.ECHO))}"
    except BaseException as e:
        msg = f"rejected {type(e).__name__}, evaluations before: {len(probes.ECHO)}"
    os.dup2(saved, 1)
    print(key, "->", msg)
# observation with same keys
for key in ("detector.characteristics.quantum_efficiencyy", "pipeline.charge_collection.e.enabledd", "pipeline.charge_collection.e.enabled"):
    probes.ECHO.clear()
    try:
        with contextlib.redirect_stderr(io.StringIO()):
            pyxel.run_mode(mode=Observation(parameters=[ParameterValues(key=key, values=[0.1, 0.2] if "enabled" not in key else [True, False])], readout=Readout(times=[1.])), detector=mk(), pipeline=pipe(), with_inherited_coords=True)
        print(key, "-> observation RAN", len(probes.ECHO))
    except BaseException as e: print(key, "-> observation rejected", type(e).__name__, "| model calls:", len(probes.ECHO))
# override
for key in ("detector.characteristics.quantum_efficiencyy", "detector.characteristics.quantum_efficiency"):
    probes.ECHO.clear()
    try:
        with contextlib.redirect_stderr(io.StringIO()):
            pyxel.run_mode(mode=Exposure(readout=Readout(times=[1.])), detector=mk(), pipeline=pipe(), override_dct={key: "0.25"})
        print(key, "-> override RAN; qe seen by model:", probes.ECHO[0][3])
    except BaseException as e: print(key, "-> override rejected", type(e).__name__)
