import sys; sys.path.insert(0, "/tmp/scratch")
import numpy as np, warnings, xarray as xr
warnings.simplefilter("ignore")
from pyxel.detectors import *
from pyxel.detectors import Detector
from t3h import add
def mk_mkid():
    return MKID(geometry=MKIDGeometry(row=3, col=4, pixel_vert_size=10., pixel_horz_size=5., total_thickness=10.), environment=Environment(temperature=100.), characteristics=Characteristics(quantum_efficiency=.5))
d = mk_mkid()
d.phase.array = np.ones((3,4))
d.pixel.array = np.ones((3,4))*2
d.image.array = np.ones((3,4), dtype=np.uint32)
d.photon.array_3d = xr.DataArray(np.ones((2,3,4)), dims=["wavelength","y","x"], coords={"wavelength":[400.,500.]})
add(d.charge, [5.], [5.], [2.])
d.save("/tmp/scratch/m.asdf")
e = Detector.load("/tmp/scratch/m.asdf")
print("phase loaded:", e.phase._array)
print("pixel:", e.pixel._array is not None, "image dtype", e.image.dtype, "photon3d", e.photon._array is not None and e.photon.array_3d.equals(d.photon.array_3d))
print("charge frame equal:", e.charge.frame.equals(d.charge.frame), e.charge.array.sum())
pass
# signal empty originally; pixel - check Pixel None vs zeros
c = CCD(geometry=CCDGeometry(row=3, col=4), environment=Environment(), characteristics=Characteristics())
print("fresh CCD pixel _array:", c.pixel._array)
c.save("/tmp/scratch/c.asdf"); c2 = Detector.load("/tmp/scratch/c.asdf")
print("geometry eq", c.geometry == c2.geometry, c2.geometry, c2.environment, c2.characteristics.to_dict())
# data
c._data["/foo"] = xr.Dataset({"a": ("k", [1.,2.,3.])})
c.scene.add_source(xr.Dataset({"x": ("ref", [1.,2.]), "y": ("ref", [1.,2.]), "weight": ("ref", [1.,2.]), "flux": (("ref","wavelength"), np.ones((2,3)))}, coords={"ref":[0,1], "wavelength":[1.,2.,3.]}, attrs={"right_ascension": "1 deg", "declination": "2 deg", "fov_radius": "0.5 deg"}))
c.save("/tmp/scratch/c3.asdf"); c3 = Detector.load("/tmp/scratch/c3.asdf")
print("data eq", c3.data.equals(c.data), "scene eq", c3.scene == c.scene)
print(c3.data)
