import sys; sys.path.insert(0, "/tmp/scratch")
import numpy as np, warnings, time
warnings.simplefilter("ignore")
import pyxel, dask
from pyxel.detectors import *
from pyxel.pipelines import DetectionPipeline, ModelFunction, Processor
from pyxel.exposure import Exposure, Readout
from pyxel.observation import Observation, ParameterValues
import probes
def mk():
    return CCD(geometry=CCDGeometry(row=64, col=64, pixel_vert_size=10., pixel_horz_size=5., total_thickness=10.), environment=Environment(temperature=100.), characteristics=Characteristics(quantum_efficiency=.5, adc_bit_resolution=16))
def pipe():
    return DetectionPipeline(photon_collection=[ModelFunction(func="probes.writer", name="w", arguments={"level": 3})], charge_collection=[ModelFunction(func="probes.stoch", name="s", arguments={"level": 3}), ModelFunction(func="probes.stoch", name="s2", arguments={"level": 3}), ModelFunction(func="probes.stoch", name="s3", arguments={"level": 3})])
def run(wd, sched=None):
    obs = Observation(parameters=[ParameterValues(key="pipeline.charge_collection.s.arguments.level", values=list(range(1,17)))], mode="product", with_dask=wd, readout=Readout(times=[1.,2.,3.]), pipeline_seed=42)
    dt = pyxel.run_mode(mode=obs, detector=mk(), pipeline=pipe(), with_inherited_coords=True)
    if wd:
        with dask.config.set(scheduler=sched, num_workers=8):
            return dt["/bucket/pixel"].compute().transpose("level", ...).values
    return dt["/bucket/pixel"].transpose("level", ...).values
ref = run(False)
st0 = np.random.get_state()[1][:3]
for sched in ["synchronous", "threads", "threads", "threads"]:
    r = run(True, sched)
    print(sched, "equal to sequential:", np.array_equal(r, ref), "n runs differing:", int((np.abs(r-ref).reshape(16,-1).max(axis=1) > 0).sum()))
print("global state unchanged:", np.array_equal(st0, np.random.get_state()[1][:3]))
