import sys; sys.path.insert(0, "/tmp/scratch")
import numpy as np, warnings
warnings.simplefilter("ignore")
import pyxel
from pyxel.detectors import *
from pyxel.pipelines import DetectionPipeline, ModelFunction, Processor
from pyxel.exposure import Exposure, Readout
from pyxel.run import apply_overrides
def mk():
    return CCD(geometry=CCDGeometry(row=3, col=4, pixel_vert_size=10., pixel_horz_size=5., total_thickness=10.), environment=Environment(temperature=100.), characteristics=Characteristics(quantum_efficiency=.5, adc_bit_resolution=16))
d = mk()
for v in (2, 100, 0, -1):
    try:
        d.characteristics.adc_bit_resolution = v; print("adc setter accepts", v)
    except Exception as e: print("adc setter rejects", v, type(e).__name__)
try: Characteristics(adc_bit_resolution=2); print("ctor accepts 2")
except Exception as e: print("ctor rejects 2")
try: APDCharacteristics(roic_gain=1., avalanche_gain=2., pixel_reset_voltage=5., adc_bit_resolution=0); print("APD ctor accepts 0")
except Exception as e: print("APD ctor rejects 0", e)
try: CCDGeometry(row=3, col=3, pixel_scale=-5.); print("geometry ctor accepts pixel_scale=-5")
except Exception as e: print("geo ctor rejects")
try: g = CCDGeometry(row=3, col=3); g.pixel_scale = -5; print("setter accepts")
except Exception as e: print("geo setter rejects pixel_scale=-5")
# Processor.set misspelt
import probes
pipe = DetectionPipeline(photon_collection=[ModelFunction(func="probes.probe", name="p", arguments={"tag": "a", "level": 3})])
proc = Processor(detector=mk(), pipeline=pipe)
for key in ["detector.characteristics.quantum_efficiencyy", "detector.geometry.roww", "detector.characteristic.quantum_efficiency", "pipeline.photon_collection.p.arguments.levell", "pipeline.photon_collection.q.arguments.level", "pipeline.photon_colection.p.arguments.level", "pipeline.photon_collection.p.enabledd", "detector.environment.temperaturee", "pipeline.charge_generation.p.arguments.level"]:
    try:
        h = proc.has(key)
    except Exception as e: h = f"raises {type(e).__name__}"
    try:
        proc.set(key, "0.25"); r = "SET OK (silent)"
    except Exception as e: r = f"raises {type(e).__name__}"
    print(f"{key:60s} has={h!s:8} set-> {r}")
print(vars(proc.detector.characteristics).keys())
# apply_overrides
exp = Exposure(readout=Readout(times=[1.]))
proc = Processor(detector=mk(), pipeline=pipe)
try:
    apply_overrides({"detector.characteristics.quantum_efficiencyy": "0.3"}, processor=proc, mode=exp); print("override misspelt: silently accepted")
except Exception as e: print("override rejects", type(e).__name__)
try:
    apply_overrides({"exposure.readout.timess": "[1,2]"}, processor=proc, mode=exp); print("override mode misspelt: silently accepted")
except Exception as e: print("override mode rejects", type(e).__name__)
# set sweep on out-of-range
for key, val in [("detector.characteristics.quantum_efficiency", 1.5), ("detector.characteristics.adc_bit_resolution", 2), ("detector.environment.temperature", -3), ("detector.geometry.row", 0)]:
    try: proc.set(key, val); print("set accepts", key, val)
    except Exception as e: print("set rejects", key, val, type(e).__name__)
# literal conversion
for s in ["1", "1.5", "1e3", "True", "[1,2,3]", "(1,2)", "abc", "'abc'", "None", "1_000", " 7", "nan", "-3", "0x10", "{'a':1}", "", "a'b", '"']:
    try: print(repr(s), "->", repr(pyxel.evaluator.eval_entry(s)))
    except Exception as e: print(repr(s), "raises", type(e).__name__, e)
