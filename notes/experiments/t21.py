import sys; sys.path.insert(0, "/tmp/scratch")
import numpy as np, warnings, io, contextlib
warnings.simplefilter("ignore")
import pyxel
from pyxel.detectors import *
from pyxel.pipelines import DetectionPipeline, ModelFunction
from pyxel.exposure import Exposure, Readout
rng = np.random.default_rng(7)
np.save("/tmp/scratch/img17.npy", rng.uniform(0, 50, (5,7)))
np.save("/tmp/scratch/chg17.npy", rng.uniform(0, 50, (3,3)))
def mk():
    return CCD(geometry=CCDGeometry(row=4, col=6, pixel_vert_size=10., pixel_horz_size=10., total_thickness=10.), environment=Environment(temperature=200.), characteristics=Characteristics(quantum_efficiency=.7, adc_bit_resolution=16, adc_voltage_range=(0.,10.)))
def pipe():
    M = ModelFunction
    return DetectionPipeline(
      photon_collection=[M(func="pyxel.models.photon_collection.illumination", name="ill", arguments={"level": 13.5, "option": "elliptic", "object_size": [3,2], "object_center": [2,3], "time_scale": 0.5}),
                         M(func="pyxel.models.photon_collection.illumination", name="ill2", arguments={"level": 2.25}),
                         M(func="pyxel.models.photon_collection.load_image", name="li", arguments={"image_file": "/tmp/scratch/img17.npy", "position": [-1, 1], "time_scale": 2.0}),
                         M(func="pyxel.models.photon_collection.stripe_pattern", name="sp", arguments={"level": 7.0, "period": 2, "angle": 0, "startwith": 0, "time_scale": 3.0})],
      charge_generation=[M(func="pyxel.models.charge_generation.simple_conversion", name="sc", arguments={"binomial_sampling": False}),
                         M(func="pyxel.models.charge_generation.load_charge", name="lc", arguments={"filename": "/tmp/scratch/chg17.npy", "position": [1,2], "time_scale": 4.0}),
                         M(func="pyxel.models.charge_generation.dark_current", name="dc", arguments={"figure_of_merit": 1.0, "temporal_noise": False})],
      charge_collection=[M(func="pyxel.models.charge_collection.simple_collection", name="coll")])
def run(times, start, nd):
    with contextlib.redirect_stderr(io.StringIO()):
        dt = pyxel.run_mode(mode=Exposure(readout=Readout(times=times, start_time=start, non_destructive=nd)), detector=mk(), pipeline=pipe())
    return dt["pixel"].values
S, E = 1.5, 11.0
ref = run([E], S, True)[-1]
worst = 0
for _ in range(30):
    n = int(rng.integers(2, 12)); cuts = np.sort(rng.uniform(S, E, n-1)); cuts = cuts[(cuts>S)&(cuts<E)]
    times = list(np.unique(cuts)) + [E]
    got = run(times, S, True)[-1]
    worst = max(worst, np.max(np.abs(got-ref)/np.maximum(np.abs(ref),1e-30)))
print("ND partition invariance worst rel err:", worst, "ref range", ref.min(), ref.max())
# destructive scaling
times = [2., 3.5, 4., 9.]; lam = 2.75
a = run(times, 1.0, False); b = run([1.0 + (t-1.0)*lam for t in times], 1.0, False)
print("destructive scaling worst rel:", np.max(np.abs(b - lam*a)/np.maximum(np.abs(a),1e-30)))
durs = np.diff([1.0]+times); rates = a/durs[:,None,None]
print("rate const across frames worst rel:", np.max(np.abs(rates-rates[0])/np.abs(rates[0])))
