import os, hypothesis
from hypothesis import settings, strategies as st, HealthCheck, Phase
from hypothesis.stateful import RuleBasedStateMachine, rule, invariant, run_state_machine_as_test
import numpy as np, warnings
warnings.simplefilter("ignore")
from pyxel.detectors import CCD, CCDGeometry, Characteristics, Environment
FOUND = []
class M(RuleBasedStateMachine):
    def __init__(self):
        super().__init__()
        self.d = CCD(geometry=CCDGeometry(row=2, col=3), environment=Environment(), characteristics=Characteristics())
        self.model = None; self.ops = []
    @rule(v=st.floats(0, 10))
    def assign(self, v):
        self.ops.append(("assign", v)); self.d.signal.array = np.full((2,3), v); self.model = np.full((2,3), v)
    @rule()
    def empty(self):
        self.ops.append(("empty",)); self.d.signal.empty(); self.model = None
    @rule()
    def cmp(self):
        self.ops.append(("cmp",))
        other = CCD(geometry=CCDGeometry(row=2, col=3), environment=Environment(), characteristics=Characteristics()).signal
        other.array = np.ones((2,3))
        try:
            r = (self.d.signal == other)
        except Exception as e:
            FOUND.append(list(self.ops)); return   # collect, don't stop
        exp = self.model is not None and np.array_equal(self.model, other.array)
        if r != exp: FOUND.append(list(self.ops))
s = settings(max_examples=50, stateful_step_count=10, deadline=None, database=None, suppress_health_check=list(HealthCheck), phases=[Phase.generate])
run_state_machine_as_test(hypothesis.seed(int(os.environ.get("VERIF_SEED","1")))(M), settings=s)
print("collected failures:", len(FOUND), "shortest:", min(FOUND, key=len) if FOUND else None)
