import numpy as np
TRACE = []
def probe(detector, tag="x", **kw):
    TRACE.append((tag, dict(kw), detector.pipeline_count, detector.time, detector.time_step, detector.absolute_time))
def writer(detector, level=1.0):
    detector.photon.array = np.full(detector.geometry.shape, float(level))
    detector.pixel.array = np.full(detector.geometry.shape, float(level))*2
    detector.signal.array = np.full(detector.geometry.shape, float(level))*3
    detector.image.array = np.full(detector.geometry.shape, int(level), dtype=np.uint16)
def stoch(detector, level=1.0):
    detector.pixel.array = detector.pixel.array + np.random.normal(level, 1.0, size=detector.geometry.shape)
def boom(detector, msg="boom"):
    raise RuntimeError(msg)
CAL_LOG = []
def cal_model(detector, a=0.0, v=(0.0, 0.0), offset=0.0, noise=0.0):
    CAL_LOG.append((float(a), tuple(float(x) for x in v), float(offset)))
    r, c = detector.geometry.shape
    yy, xx = np.mgrid[0:r, 0:c]
    arr = a * yy + v[0] * xx + v[1] + offset
    if noise:
        arr = arr + np.random.normal(0, noise, size=arr.shape)
    detector.pixel.array = arr.astype(float)
    detector.photon.array = np.abs(arr.astype(float))
    detector.signal.array = arr.astype(float)
    detector.image.array = np.clip(arr, 0, 60000).astype(np.uint16)
SNAP = []
def step_writer(detector, plan=None):
    """plan: dict bucket -> list of per-step values or None."""
    i = detector.pipeline_count
    shp = detector.geometry.shape
    for b, spec in (plan or {}).items():
        vals, dt = spec
        v = vals[i]
        if v is None: continue
        if b == "photon3d":
            import xarray as xr
            detector.photon.array_3d = xr.DataArray(np.full((2,)+shp, v, dtype=dt), dims=["wavelength","y","x"], coords={"wavelength":[400.,500.]})
        elif b == "charge":
            detector.charge.add_charge_array(np.full(shp, v, dtype=dt))
        else:
            getattr(detector, b).array = np.full(shp, v, dtype=dt)
def snap(detector):
    d = {}
    for b in ("photon","pixel","signal","image"):
        a = getattr(detector, b)._array
        d[b] = None if a is None else (np.array(a).copy(), str(a.dtype))
    d["charge"] = detector.charge.array.copy()
    d["t"] = detector.absolute_time
    SNAP.append(d)
class MyErr(Exception): pass
CALLS = []
def maybe_boom(detector, level=0, fail_level=None, fail_step=None, msg="kaboom-123"):
    CALLS.append((level, detector.pipeline_count))
    if fail_level is not None and level == fail_level and (fail_step is None or detector.pipeline_count == fail_step):
        raise MyErr(msg)
    detector.pixel.array = np.full(detector.geometry.shape, float(level))
    detector.image.array = np.full(detector.geometry.shape, int(abs(level)) % 60000, dtype=np.uint16)
ECHO = []
def echo(detector, level=0.0, vec=(0.0, 0.0), name="x"):
    ECHO.append((float(level), tuple(float(v) for v in vec), str(name), float(detector.characteristics.quantum_efficiency)))
    shp = detector.geometry.shape
    val = float(level) * 1000 + sum((i+1)*float(v) for i, v in enumerate(vec)) + 1e-3*float(detector.characteristics.quantum_efficiency)
    detector.pixel.array = np.full(shp, val)
    detector.image.array = np.full(shp, int(level) % 60000, dtype=np.uint16)
def memory(detector, bump=1.0, lst=None):
    detector._memory["n"] = detector._memory.get("n", 0) + 1
    if lst is not None: lst.append(len(lst))
    detector.pixel.array = detector.pixel.array + bump * detector._memory["n"]
    detector.image.array = np.zeros(detector.geometry.shape, dtype=np.uint16)
