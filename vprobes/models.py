"""Probe models, referenced from generated pipelines as ``func: vprobes.models.<name>``.

They observe the detector from *inside* a run and write deterministic, argument-derived
values into buckets. All state is module-level and reset by ``reset()`` at the top of a case.
"""

from __future__ import annotations

import copy
import json
import os
import threading

import numpy as np

TRACE: list = []  # generic call log (thread-safe append)
SNAPS: list = []  # bucket snapshots
ECHO: list = []
_LOCK = threading.Lock()
BARRIER = None  # optional threading.Barrier armed by a check
TRACE_FILE = None  # per-process JSONL trace (process pools)


def reset():
    global BARRIER, TRACE_FILE
    TRACE.clear()
    SNAPS.clear()
    ECHO.clear()
    CAL_LOG.clear()
    COUNTER["n"] = 0
    BARRIER = None
    TRACE_FILE = os.environ.get("VPROBES_TRACE_FILE")


def _jsonable(v):
    if isinstance(v, np.ndarray):
        return v.tolist()
    if isinstance(v, (np.integer,)):
        return int(v)
    if isinstance(v, (np.floating,)):
        return float(v)
    if isinstance(v, (list, tuple)):
        return [_jsonable(x) for x in v]
    if isinstance(v, dict):
        return {str(k): _jsonable(x) for k, x in v.items()}
    return v


def _log(rec: dict):
    TRACE.append(rec)
    tf = TRACE_FILE or os.environ.get("VPROBES_TRACE_FILE")
    if tf:
        with _LOCK, open(f"{tf}.{os.getpid()}", "a") as fh:
            fh.write(json.dumps(_jsonable(rec), default=repr) + "\n")


# --------------------------------------------------------------------------- C01
def trace(detector, **kwargs):
    """Log (tag, kwargs received, step, detector identity, running-model name, run marker)."""
    _log({
        "tag": kwargs.get("tag"),
        "kw": copy.deepcopy(_jsonable(kwargs)),
        "step": int(detector.pipeline_count),
        "det": id(detector),
        "name": detector.current_running_model_name,
        "run": _run_marker(detector),
    })


def trace_sig(detector, gain=2.0, offset=1, label="dflt", flag=True, opt=None, tag=None):
    """As `trace`, for a model with declared parameters that all have defaults: logs the value received for every one of them."""
    _log({
        "tag": tag,
        "kw": copy.deepcopy(_jsonable({"gain": gain, "offset": offset, "label": label, "flag": flag, "opt": opt, "tag": tag})),
        "step": int(detector.pipeline_count),
        "det": id(detector),
        "name": detector.current_running_model_name,
        "run": _run_marker(detector),
    })


def _run_marker(detector):
    """A value identifying the parameter run: the detector's temperature (swept by the checks)."""
    try:
        return detector.environment.temperature
    except Exception:  # noqa: BLE001
        return None


# --------------------------------------------------------------------------- bucket helpers
def bucket_state(detector) -> dict:
    """Copy of every bucket as seen through the public API (None = empty)."""
    out = {}
    ph = detector.photon
    try:
        out["photon"] = np.array(ph.array, copy=True)
    except Exception:  # noqa: BLE001
        try:
            a3 = ph.array_3d
            out["photon"] = ("3d", np.array(a3.values, copy=True), [float(w) for w in a3["wavelength"].values])
        except Exception:  # noqa: BLE001
            out["photon"] = None
    for b in ("pixel", "signal", "image"):
        try:
            out[b] = np.array(getattr(detector, b).array, copy=True)
        except Exception:  # noqa: BLE001
            out[b] = None
    ch = detector.charge
    out["charge"] = np.array(ch.array, copy=True)
    out["charge_frame_len"] = int(len(ch.frame))
    try:
        out["scene_empty"] = bool(detector.scene.data.is_empty)
        out["scene_children"] = sorted(detector.scene.data.children)
    except Exception:  # noqa: BLE001
        out["scene_empty"] = None
    if hasattr(detector, "_phase") and detector._phase is not None:
        try:
            out["phase"] = np.array(detector.phase.array, copy=True)
        except Exception:  # noqa: BLE001
            out["phase"] = None
    return out


def clock_and_buckets(detector, where="first"):
    """Record the clock properties and a copy of every bucket."""
    SNAPS.append({
        "where": where,
        "time": float(detector.time),
        "time_step": float(detector.time_step),
        "absolute_time": float(detector.absolute_time),
        "start_time": float(detector.start_time),
        "pipeline_count": int(detector.pipeline_count),
        "is_first": bool(detector.is_first_readout),
        "is_last": bool(detector.is_last_readout),
        "num_steps": int(detector.num_steps),
        "non_destructive": bool(detector.non_destructive_readout),
        "buckets": bucket_state(detector),
        "det": id(detector),
    })


def _value_array(shape, v, dtype):
    """Deterministic frame: base value v plus a small per-pixel ramp (so transposes show)."""
    rows, cols = shape
    ramp = (np.arange(rows * cols).reshape(rows, cols) % 7).astype(float)
    dt = np.dtype(dtype)
    if isinstance(v, str):  # non-finite content: "nan" / "inf" (one pixel) or "mix" (first pixel nan, last pixel inf)
        a = (3.0 + ramp * 0.25).astype(dt)
        a.flat[0] = np.nan if v in ("nan", "mix") else np.inf
        if v == "mix":
            a.flat[-1] = np.inf
        return a
    if dt.kind == "u":
        a = np.full((rows, cols), int(v), dtype=np.uint64)
        sub = ramp.astype(np.uint64) % np.uint64(3)
        a = a - sub if int(v) >= 2 else a + sub  # v, v-1, v-2: never leaves the dtype's range
        return a.astype(dt)
    return (float(v) + ramp * 0.25).astype(dt)


def scene_source(v):
    import xarray as xr

    return xr.Dataset(
        {"x": ("ref", [float(v)]), "y": ("ref", [1.0]), "weight": ("ref", [2.0]),
         "flux": (("ref", "wavelength"), np.full((1, 2), float(v)))},
        coords={"ref": [0], "wavelength": [500.0, 600.0]},
    )


def data_node(v, i):
    import xarray as xr

    return xr.DataTree(xr.Dataset({"v": ("k", np.array([float(v), float(i)]))}))


def writer(detector, plan=None, tag=None, snap=False):
    """Write per-step planned values into chosen buckets.

    plan: {bucket: {"dtype": str, "values": [v_step0, v_step1, ...] (None = do not write)}}
    buckets: photon, photon3d, charge, clusters, pixel, signal, image, phase, scene, data
    """
    import xarray as xr

    i = int(detector.pipeline_count)
    shape = detector.geometry.shape
    if snap:
        SNAPS.append({"where": f"pre:{tag}", "step": i, "buckets": bucket_state(detector)})
    _write(detector, plan, tag, i, shape)
    if snap:
        SNAPS.append({"where": f"post:{tag}", "step": i, "buckets": bucket_state(detector)})


def _write(detector, plan, tag, i, shape):
    import xarray as xr

    for bucket, spec in (plan or {}).items():
        vals = spec["values"]
        v = vals[i % len(vals)] if vals else None
        if v is None:
            continue
        dt = spec.get("dtype", "float64")
        if bucket == "photon":
            detector.photon.array = _value_array(shape, v, dt)
        elif bucket == "photon3d":
            nw = int(spec.get("nw", 2))
            base = _value_array(shape, v, dt)
            data = np.stack([base + dt_i for dt_i in range(nw)]).astype(dt)
            coords = {"wavelength": [400.0 + 100.0 * k for k in range(nw)]}
            if spec.get("own_xy"):  # the cube carries positions of its own on 'y' / 'x' (pixel centres in um, as an optics / interpolation step leaves them)
                coords["y"] = (np.arange(shape[0]) + 0.5) * 18.0
                coords["x"] = (np.arange(shape[1]) + 0.5) * 18.0
            detector.photon.array_3d = xr.DataArray(data, dims=["wavelength", "y", "x"], coords=coords)
        elif bucket == "charge":
            detector.charge.add_charge_array(_value_array(shape, v, dt))
        elif bucket == "clusters":
            n = 1 + int(v) % 3
            z = np.zeros(n)
            geo = detector.geometry
            detector.charge.add_charge(
                particle_type="e",
                particles_per_cluster=np.full(n, float(v)),
                init_energy=z,
                init_ver_position=(np.arange(n) % geo.row + 0.5) * geo.pixel_vert_size,
                init_hor_position=(np.arange(n) % geo.col + 0.5) * geo.pixel_horz_size,
                init_z_position=z, init_ver_velocity=z, init_hor_velocity=z, init_z_velocity=z,
            )
        elif bucket in ("pixel", "signal", "image", "phase"):
            getattr(detector, bucket).array = _value_array(shape, v, dt)
        elif bucket == "photon_iadd":  # in-place update, as the library's illumination / load_image models do
            detector.photon += _value_array(shape, v, "float64")
        elif bucket in ("pixel_iadd", "signal_iadd"):
            arr = getattr(detector, bucket.split("_")[0]).array
            arr += _value_array(shape, v, "float64").astype(arr.dtype)
        elif bucket == "pixel_add":
            detector.pixel.array = detector.pixel.array + _value_array(shape, v, dt)
        elif bucket == "scene":
            ds = scene_source(v)
            detector.scene.add_source(ds)
        elif bucket == "data":
            detector.data[f"/probe/{tag or 'w'}"] = data_node(v, i)
        else:
            raise ValueError(f"unknown bucket {bucket}")


def snapshot(detector, label="end"):
    SNAPS.append({"where": label, "step": int(detector.pipeline_count), "absolute_time": float(detector.absolute_time),
                  "buckets": bucket_state(detector), "det": id(detector), "run": _run_marker(detector)})


# --------------------------------------------------------------------------- observation probes
def echo(detector, level=0.0, vec=(0.0, 0.0), name="x", other=0.0, tag=None, opts=None):
    """Encode the argument values *actually received* into pixel / image so that a result identifies its run."""
    vec_t = tuple(float(v) for v in np.atleast_1d(np.asarray(vec, dtype=float)))
    qe = getattr(detector.characteristics, "_quantum_efficiency", None)
    temperature = getattr(detector.environment, "_temperature", None)
    rec = {"tag": tag, "level": float(level), "vec": list(vec_t), "name": str(name), "other": float(other),
           "qe": qe, "temperature": temperature, "step": int(detector.pipeline_count), "k": float((opts or {}).get("k", 0.0))}
    ECHO.append(rec)
    _log(dict(rec, kind="echo"))
    shp = detector.geometry.shape
    val = encode(level, vec_t, other, qe, temperature) + name_code(name) + nested_code((opts or {}).get("k", 0.0))
    detector.pixel.array = detector.pixel.array + np.full(shp, val)
    detector.signal.array = np.full(shp, float(level))
    detector.image.array = np.full(shp, int(abs(float(level)) * 16) % 60000, dtype=np.uint16)


NAME_CODES = {"x": 0, "b": 1, "a": 2, "zz": 3, "img_01.fits": 4, "Uniform": 5}


def name_code(name) -> float:
    """Contribution of the text-valued argument to the encoding ('x', the default, contributes nothing)."""
    return 1e-7 * NAME_CODES.get(str(name), 9)


def nested_code(k) -> float:
    """Contribution of the entry 'k' of the mapping-valued argument 'opts' (0, the default, contributes nothing)."""
    return 1e-6 * float(k)


def encode(level, vec, other, qe, temperature):
    return (float(level) * 1000.0 + sum((i + 1) * 10.0 * float(v) for i, v in enumerate(vec)) + float(other)
            + 1e-3 * float(qe if qe is not None else 0.0) + 1e-6 * float(temperature if temperature is not None else 0.0))


def memory(detector, bump=1.0, tag=None):
    """A model that keeps state on the detector (like trapped charge)."""
    n = detector._memory.get("probe_n", 0) + 1
    detector._memory["probe_n"] = n
    detector.pixel.array = detector.pixel.array + float(bump) * n
    _log({"kind": "memory", "n": n, "bump": float(bump), "step": int(detector.pipeline_count)})


def arg_mutator(detector, lst=None, tag=None):
    """A badly behaved model that mutates its own list argument in place."""
    if lst is not None:
        detector.pixel.array = detector.pixel.array + float(len(lst))
        lst.append(len(lst))


def array_arg_mutator(detector, arr=None, tag=None):
    """A model that works in place on an ndarray-valued argument (e.g. `response *= gain`); only the Python API can configure one."""
    if arr is not None:
        a = np.asarray(arr, dtype=float)  # (a common idiom: no copy when the argument already is a float array)
        detector.pixel.array = detector.pixel.array + float(np.sum(a))
        a *= 2.0


def const_image(detector, value=7):
    detector.image.array = np.full(detector.geometry.shape, int(value), dtype=np.uint16)


def stochastic(detector, scale=1.0, seed=None):
    from pyxel.util import set_random_seed

    with set_random_seed(seed):
        draw = np.random.normal(0.0, float(scale), size=detector.geometry.shape)
    detector.pixel.array = detector.pixel.array + draw
    detector.signal.array = np.random.random(detector.geometry.shape)


class ProbeError(Exception):
    pass


def exc_class(name: str):
    """Exception class by name: the harness's own classes or any builtin exception."""
    import builtins

    if name == "ProbeError":
        return ProbeError
    cls = getattr(builtins, name)
    assert isinstance(cls, type) and issubclass(cls, Exception)
    return cls


class TwoArgError(Exception):
    def __init__(self, a, b):
        super().__init__(a, b)
        self.a, self.b = a, b


class FormattedArgsError(Exception):
    """An exception whose constructor arguments are not its `args` (it formats them into one message), as many library errors do."""

    def __init__(self, code, detail):
        super().__init__(f"fault {code}: {detail}")
        self.code, self.detail = code, detail


def make_exc(exc: str, token: str):
    """A new exception object of the named class carrying the token."""
    if exc == "TwoArgError":
        return TwoArgError(token, 42)
    if exc == "FormattedArgsError":
        return FormattedArgsError(7, token)
    if exc == "FileNotFoundWithName":  # what open() raises: errno, message and the file name (the token is in the file name only)
        return FileNotFoundError(2, "No such file or directory", f"/nonexistent/{token}.dat")
    return exc_class(exc)(token)


def fault(detector, token="tok", exc="ValueError", at_step=None, at_level=None, level=0.0, tag=None):
    """Raise a chosen exception class carrying a unique token at a chosen (run, step) site; otherwise log the call."""
    _log({"kind": "fault_call", "tag": tag, "step": int(detector.pipeline_count), "level": float(level)})
    hit = (at_step is None or int(detector.pipeline_count) == int(at_step)) and (at_level is None or float(level) == float(at_level))
    if exc and hit:
        classes = {"ValueError": ValueError, "KeyError": KeyError, "RuntimeError": RuntimeError,
                   "ZeroDivisionError": ZeroDivisionError, "OSError": OSError, "ProbeError": ProbeError,
                   "TypeError": TypeError, "IndexError": IndexError}
        if exc == "TwoArgError":
            raise TwoArgError(token, 42)
        raise classes[exc](token)
    detector.pixel.array = detector.pixel.array + float(level)
    detector.image.array = np.full(detector.geometry.shape, 3, dtype=np.uint16)


def delay(detector, level=0.0, scale_ms=2.0):
    import time

    detector._memory["delay_level"] = float(level)
    time.sleep(((int(abs(float(level)) * 7919) % 5) * float(scale_ms)) / 1000.0)


def level_from_delay_model(detector):
    """Add 1e5 x the 'level' argument of the delay model of this very pipeline run to the pixel bucket, so that a saved file identifies its run.

    (The level is published by the delay model through the detector's memory.)
    """
    lv = detector._memory.get("delay_level", 0.0)
    detector.pixel.array = detector.pixel.array + 1e5 * float(lv)


def barrier(detector):
    b = BARRIER
    if b is not None:
        b.wait()


def fault_if(detector, key="temperature", bad=None, token="isolation-fault"):
    """Raise when a detector field has a given value (makes exactly one run of a sweep fail)."""
    val = detector.environment.temperature if key == "temperature" else detector.characteristics.quantum_efficiency
    if bad is not None and float(val) == float(bad):
        raise ProbeError(token)


SAME_INSTANCE: dict = {}  # exception objects raised again as the very same instance (like a failed future's or a cached load error)


def fault2(detector, tag=None, token="tok", exc="ValueError", at_step=None, at_temp=None, armed=False, same_instance=False):
    """Log the call; raise the chosen exception class (carrying a unique token) at the chosen (run, step) site if armed."""
    temp = getattr(detector.environment, "_temperature", None)
    _log({"kind": "fault_call", "tag": tag, "step": int(detector.pipeline_count), "run": temp})
    if armed and (at_step is None or int(detector.pipeline_count) == int(at_step)) and (at_temp is None or float(temp) == float(at_temp)):
        if same_instance:
            key = (exc, token)
            if key not in SAME_INSTANCE:
                SAME_INSTANCE[key] = make_exc(exc, token)
            raise SAME_INSTANCE[key]
        raise make_exc(exc, token)
    detector.pixel.array = detector.pixel.array + 1.0
    detector.image.array = np.full(detector.geometry.shape, 3, dtype=np.uint16)


# --------------------------------------------------------------------------- calibration probes
CAL_LOG: list = []


def cal_frame(shape, values: dict, step: int = 0, offset: float = 0.0):
    """Analytic frame the harness can recompute: depends on every received value, the pixel position and the step."""
    rows, cols = shape
    yy, xx = np.mgrid[0:rows, 0:cols]
    total = 0.0
    for k, name in enumerate(sorted(values)):
        v = values[name]
        vec = np.atleast_1d(np.asarray(v, dtype=float))
        total = total + (k + 1) * sum((1.0 + 0.5 * j) * float(x) for j, x in enumerate(vec))
    return (total * (1.0 + 0.25 * step) + offset) + 0.5 * yy + 0.125 * xx * (1.0 + step)


def cal_probe(detector, p0=None, p1=None, p2=None, p3=None, offset=0.0, noise=0.0, tag=None):
    """Calibration probe: logs exactly what it received and writes an analytic frame into pixel / signal / image."""
    vals = {k: v for k, v in (("p0", p0), ("p1", p1), ("p2", p2), ("p3", p3)) if v is not None}
    qe = getattr(detector.characteristics, "_quantum_efficiency", None)
    rec = {"kind": "cal", "values": {k: (float(v) if np.ndim(v) == 0 else [float(x) for x in np.asarray(v).ravel()]) for k, v in vals.items()},
           "types": {k: type(v).__name__ for k, v in vals.items()}, "offset": float(offset), "qe": qe, "step": int(detector.pipeline_count),
           "thread": threading.get_ident()}
    CAL_LOG.append(rec)
    _log(rec)
    frame = cal_frame(detector.geometry.shape, rec["values"], step=int(detector.pipeline_count), offset=float(offset) + (1000.0 * float(qe) if qe is not None else 0.0))
    if noise:
        frame = frame + np.random.normal(0.0, float(noise), size=frame.shape)
    detector.pixel.array = frame.astype(float)
    detector.signal.array = (frame * 0.5).astype(float)
    detector.image.array = np.clip(np.abs(frame), 0, 60000).astype(np.uint16)


def fitness_log(simulated, target, weighting=None):
    """Fitness function that records the simulated data it was handed (one record per evaluated processor)."""
    sim = np.array(simulated, dtype=float)
    CAL_LOG.append({"kind": "fit", "sim": sim.copy(), "thread": threading.get_ident()})
    return float(np.nansum(np.abs(sim - np.asarray(target, dtype=float))))


COUNTER = {"n": 0}


def fault_at_call(detector, n=None, token="tok", exc="ValueError", tag=None):
    """Raise at the n-th call (counted over the whole process since reset); used for calibration fault sites."""
    with _LOCK:
        k = COUNTER["n"]
        COUNTER["n"] = k + 1
    _log({"kind": "fault_call", "tag": tag, "call": k, "thread": threading.get_ident()})
    if n is not None and k == int(n):
        raise make_exc(exc, token)
    detector.pixel.array = detector.pixel.array + float(k % 7)
